#!/bin/bash
# Builds every build variant of the harness once (offline); the checks rebuild incrementally from /repo's working tree.
export CARGO_NET_OFFLINE=true
cd /verif/harness || exit 2
V=/verif; mkdir -p $V/work $V/replays $V/evidence
set -e
cargo build --release --quiet --target-dir $V/target
cargo build --profile dbg --quiet --target-dir $V/target
cargo build --quiet --target-dir $V/target
RUSTFLAGS="-Zsanitizer=address -Cforce-frame-pointers=yes" cargo +nightly build --release --quiet --target x86_64-unknown-linux-gnu --target-dir $V/target-asan
RUSTFLAGS="-Zsanitizer=thread" cargo +nightly build --release --quiet -Zbuild-std --target x86_64-unknown-linux-gnu --target-dir $V/target-tsan
MIRIFLAGS="-Zmiri-tree-borrows -Zmiri-disable-isolation" cargo +nightly miri run --quiet --target-dir $V/target-miri --bin vcheck -- help >/dev/null 2>&1 || true
echo "setup done"
