#!/bin/bash
# tools/coverage.sh [tier]: source-based coverage (rustc -Cinstrument-coverage, llvm-cov from the nightly sysroot) of /repo/lib/src
# under the native (release-profile) workloads of all 18 checks. Diagnostic only - not a registered check: it shows which
# library regions the monitored executions went through and prints the lines no workload reached.
# Scratch output under /tmp/cov (removed at the end unless KEEP=1).
set -u
TIER=${1:-quick}
export CARGO_NET_OFFLINE=true
B=$(rustc +nightly --print sysroot)/lib/rustlib/x86_64-unknown-linux-gnu/bin
rm -rf /tmp/cov; mkdir -p /tmp/cov/prof /tmp/cov/v
(cd /verif/harness && RUSTFLAGS="-Cinstrument-coverage" cargo +nightly build --release --quiet --target-dir /tmp/cov/target) || exit 2
export VERIF_ROOT=/tmp/cov/v VERIF_VARIANTS=release VERIF_MAX_PAR=${VERIF_MAX_PAR:-16}
for p in C01 C02 C03 C04 C05 C06 C07 C08 C09 C10 C11 C12 C13 C14 C15 C16 C17 C18; do
  mkdir -p /tmp/cov/prof/$p
  LLVM_PROFILE_FILE=/tmp/cov/prof/$p/%p-%m.profraw /tmp/cov/target/release/vcheck run $p $TIER 2>&1 | tail -1 | cut -c1-160
done
$B/llvm-profdata merge -sparse /tmp/cov/prof/*/*.profraw -o /tmp/cov/all.profdata
$B/llvm-cov report /tmp/cov/target/release/vcheck -instr-profile=/tmp/cov/all.profdata --ignore-filename-regex='(registry|rustc|rustup|harness)' 2>/dev/null
$B/llvm-cov show /tmp/cov/target/release/vcheck -instr-profile=/tmp/cov/all.profdata --ignore-filename-regex='(registry|rustc|rustup|harness|verif.rs)' 2>/dev/null > /tmp/cov/show.txt
echo "--- lines never executed (excluding closing braces)"
python3 - <<'P'
import re
cur=None
for l in open('/tmp/cov/show.txt'):
    if l.startswith('/repo/') and l.rstrip().endswith(':'): cur=l.strip(); continue
    m=re.match(r'\s*(\d+)\|\s*0\|(.*)',l)
    if m and cur and m.group(2).strip() not in ('}',''): print(cur.split('/')[-1], m.group(1), m.group(2)[:110])
P
[ "${KEEP:-0}" = 1 ] || rm -rf /tmp/cov
