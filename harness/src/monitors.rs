//! Oracles over the values returned by whole Boolean operations (C01, C02, C04, C05 and users).

use crate::gen::Case;
use crate::geom::*;
use std::collections::HashMap;

/// Witness points of a case: one or more per face of the arrangement of the input edges, with
/// operand membership decided by the independent even-odd oracle, plus the face centroids whose
/// membership is known by construction.
pub struct Witnesses {
    pub pts: Vec<Wit>,
    pub clear: f64,
    pub pieces: usize,
    pub skipped_unclear: usize,
    pub from_faces: usize,
}

pub fn witnesses(case: &Case, tol: f64) -> Witnesses {
    let scale = case.scale();
    let clear = clearance(tol, scale);
    let mut segs = segs_of(&case.a);
    segs.extend(segs_of(&case.b));
    let mut st = WitnessStats { pieces: 0, accepted: 0, skipped_unclear: 0 };
    let side = arrangement_side_points(&segs, clear, &mut st);
    let mut pts: Vec<Wit> = side
        .into_iter()
        .map(|p| Wit { x: p.0, y: p.1, in_a: in_evenodd(&case.a, p.0, p.1), in_b: in_evenodd(&case.b, p.0, p.1) })
        .collect();
    let mut from_faces = 0;
    for &(c, ia, ib) in &case.faces {
        if min_dist_to_segs(c, &segs) > clear {
            pts.push(Wit { x: c.0, y: c.1, in_a: ia, in_b: ib });
            from_faces += 1;
        }
    }
    // one point far outside everything
    if let Some((lo, hi)) = bbox(&vec![segs.iter().map(|s| vec![s.0, s.1]).collect::<Vec<Ring>>()]) {
        let d = (hi.0 - lo.0).max(hi.1 - lo.1).max(scale * 1e-3) + 1.0;
        pts.push(Wit { x: hi.0 + d, y: hi.1 + d * 0.5, in_a: false, in_b: false });
    }
    Witnesses { pts, clear, pieces: st.pieces, skipped_unclear: st.skipped_unclear, from_faces }
}

/// C01: structural membership in the result equals op(in A, in B) at every witness.
/// Returns the first disagreeing witness.
pub fn check_region(w: &Witnesses, op: Op, result: &MP) -> Result<usize, String> {
    let mut n = 0;
    for p in &w.pts {
        let expect = op.apply(p.in_a, p.in_b);
        let got = in_mp(result, p.x, p.y);
        n += 1;
        if got != expect {
            return Err(format!(
                "witness ({:?},{:?}) inA={} inB={}: {} should be {} but result membership is {}",
                p.x, p.y, p.in_a, p.in_b, op.name(), expect, got
            ));
        }
    }
    Ok(n)
}

/// membership of the witnesses in an arbitrary multipolygon read structurally
pub fn membership(w: &Witnesses, mp: &MP) -> Vec<bool> {
    w.pts.iter().map(|p| in_mp(mp, p.x, p.y)).collect()
}

// ------------------------------------------------------------------------------------------
// C02: structure of the returned polygon set

#[derive(Default, Debug, Clone)]
pub struct StructStats {
    pub holes_checked: usize,
    pub polygon_pairs_checked: usize,
    pub witness_reads: usize,
    pub pieces_checked: usize,
    pub skipped_interior_points: usize,
}

/// Two points just left and right of the edge `all[idx]` (relative to its direction) that are farther
/// than `clear` from every edge and whose connection to the edge crosses no other edge, i.e. they
/// lie in the two faces adjacent to the edge.
pub fn adjacent_side_points(idx: usize, all: &[Seg], clear: f64) -> Option<(Pt, Pt)> {
    let s = all[idx];
    let (dx, dy) = (s.1 .0 - s.0 .0, s.1 .1 - s.0 .1);
    let len = (dx * dx + dy * dy).sqrt();
    if len <= 8.0 * clear {
        return None;
    }
    let (nx, ny) = (-dy / len, dx / len);
    for frac in [0.5, 0.3125, 0.6875, 0.2, 0.8] {
        let m = (s.0 .0 + frac * dx, s.0 .1 + frac * dy);
        let mut delta = len * 0.125;
        while delta > 2.0 * clear {
            let l = (m.0 + delta * nx, m.1 + delta * ny);
            let r = (m.0 - delta * nx, m.1 - delta * ny);
            if min_dist_to_segs(l, all) > clear && min_dist_to_segs(r, all) > clear {
                let mut free = true;
                for (j, t) in all.iter().enumerate() {
                    if j == idx {
                        continue;
                    }
                    // the probe l-r crosses the edge itself near m; it must not meet any other edge
                    if seg_rel((l, r), *t) != Rel::Disjoint {
                        free = false;
                        break;
                    }
                }
                if free {
                    return Some((l, r));
                }
            }
            delta *= 0.25;
        }
    }
    None
}

/// Checks on the output alone. `exact`: coordinates are integers/dyadic so that the shared-boundary
/// test can split edges exactly.
pub fn check_structure(result: &MP, w: &Witnesses, exact: bool, st: &mut StructStats) -> Result<(), String> {
    let all = segs_of(result);
    let clear = w.clear;
    // 1. reading polygon by polygon == even-odd over all rings; no point covered by two polygons
    for p in &w.pts {
        st.witness_reads += 1;
        let cc = cover_count(result, p.x, p.y);
        let eo = in_evenodd(result, p.x, p.y);
        if cc > 1 {
            return Err(format!("witness ({:?},{:?}) is covered by {} polygons of the result", p.x, p.y, cc));
        }
        if (cc == 1) != eo {
            return Err(format!("witness ({:?},{:?}): polygon-by-polygon reading = {} but even-odd reading of all rings = {}", p.x, p.y, cc == 1, eo));
        }
    }
    // 2. every boundary edge separates "inside exactly the polygon that carries the ring" from "inside no
    //    polygon"; holes lie inside their exterior and outside sibling holes.
    let mut idx = 0usize;
    for (pi, poly) in result.iter().enumerate() {
        for (ri, ring) in poly.iter().enumerate() {
            let mut rs = Vec::new();
            ring_segs(ring, &mut rs);
            let mut done = 0;
            let per_ring = if all.len() <= 96 { usize::MAX } else { 3 };
            for k in 0..rs.len() {
                let my = idx + k;
                if done >= per_ring {
                    break;
                }
                let (l, r) = match adjacent_side_points(my, &all, clear) {
                    Some(v) => v,
                    None => {
                        st.skipped_interior_points += 1;
                        continue;
                    }
                };
                done += 1;
                // which of the two is inside this ring?
                let (inner, outer) = match (in_ring(ring, l.0, l.1), in_ring(ring, r.0, r.1)) {
                    (true, false) => (l, r),
                    (false, true) => (r, l),
                    _ => return Err(format!("edge {:?} of ring {} of polygon {} does not separate the ring's inside from its outside (self-overlapping ring)", rs[k], ri, pi)),
                };
                let (solid, empty) = if ri == 0 { (inner, outer) } else { (outer, inner) };
                if ri == 0 {
                    st.polygon_pairs_checked += 1;
                } else {
                    st.holes_checked += 1;
                    if !in_ring(&poly[0], inner.0, inner.1) {
                        return Err(format!("hole {} of polygon {}: interior point {:?} lies outside the polygon's exterior ring", ri - 1, pi, inner));
                    }
                    for (hj, other) in poly.iter().enumerate().skip(1) {
                        if hj != ri && in_ring(other, inner.0, inner.1) {
                            return Err(format!("hole {} of polygon {}: interior point {:?} lies inside sibling hole {}", ri - 1, pi, inner, hj - 1));
                        }
                    }
                }
                if !in_poly(poly, solid.0, solid.1) {
                    return Err(format!("ring {} of polygon {}: point {:?} on the solid side of edge {:?} is not inside that polygon (ring attached to the wrong polygon or wrong role)", ri, pi, solid, rs[k]));
                }
                let cc = cover_count(result, solid.0, solid.1);
                if cc != 1 {
                    return Err(format!("ring {} of polygon {}: point {:?} on the solid side of edge {:?} is covered by {} polygons", ri, pi, solid, rs[k], cc));
                }
                let ce = cover_count(result, empty.0, empty.1);
                if ce != 0 {
                    return Err(format!("ring {} of polygon {}: point {:?} on the empty side of edge {:?} is covered by {} polygons (boundary between two result pieces was not merged, or nesting is wrong)", ri, pi, empty, rs[k], ce));
                }
            }
            idx += rs.len();
        }
    }
    // 3. no boundary piece used twice
    if exact {
        // split every edge at every result vertex lying in its interior (exact), then count undirected pieces
        let verts: Vec<Pt> = rings(result).flatten().cloned().collect();
        let mut count: HashMap<(u64, u64, u64, u64), u32> = HashMap::new();
        for s in &all {
            let s = norm_seg(*s);
            let mut cuts: Vec<Pt> = vec![s.0, s.1];
            for &v in &verts {
                if v.0 < s.0 .0.min(s.1 .0) || v.0 > s.0 .0.max(s.1 .0) || v.1 < s.0 .1.min(s.1 .1) || v.1 > s.0 .1.max(s.1 .1) {
                    continue;
                }
                if in_seg_interior(s, v) {
                    cuts.push(v);
                }
            }
            cuts.sort_by(|a, b| a.partial_cmp(b).unwrap());
            cuts.dedup();
            for c in cuts.windows(2) {
                st.pieces_checked += 1;
                let key = (c[0].0.to_bits(), c[0].1.to_bits(), c[1].0.to_bits(), c[1].1.to_bits());
                let e = count.entry(key).or_insert(0);
                *e += 1;
                if *e > 1 {
                    return Err(format!("boundary piece {:?}-{:?} is used more than once by the result's rings", c[0], c[1]));
                }
            }
        }
    } else {
        let mut seen: HashMap<(u64, u64, u64, u64), u32> = HashMap::new();
        for s in &all {
            let s = norm_seg(*s);
            st.pieces_checked += 1;
            let key = (s.0 .0.to_bits(), s.0 .1.to_bits(), s.1 .0.to_bits(), s.1 .1.to_bits());
            let e = seen.entry(key).or_insert(0);
            *e += 1;
            if *e > 1 {
                return Err(format!("edge {:?}-{:?} occurs more than once in the result's rings", s.0, s.1));
            }
        }
    }
    Ok(())
}

// ------------------------------------------------------------------------------------------
// C04: provenance of the output geometry

#[derive(Default, Debug, Clone)]
pub struct ProvStats {
    pub edges_checked: usize,
    pub vertices_identical: usize,
    pub vertices_intersection: usize,
    pub rings_checked: usize,
    pub exact_vertices: usize,
    pub divisions_logged: usize,
}

/// `assembled`: rings were assembled by the sweep (bounding boxes not disjoint) and must be CCW.
pub fn check_provenance(case: &Case, result: &MP, tol: f64, assembled: bool, st: &mut ProvStats) -> Result<(), String> {
    let mut in_segs = segs_of(&case.a);
    in_segs.extend(segs_of(&case.b));
    let in_verts: std::collections::HashSet<(u64, u64)> = in_segs.iter().flat_map(|s| [s.0, s.1]).map(|p| (p.0.to_bits(), p.1.to_bits())).collect();
    // normalise -0.0: the library may produce 0.0 where the input had -0.0 or vice versa only through arithmetic
    let is_in_vert = |p: Pt| in_verts.contains(&(p.0.to_bits(), p.1.to_bits())) || in_verts.contains(&((p.0 + 0.0).to_bits(), (p.1 + 0.0).to_bits()));
    for (pi, poly) in result.iter().enumerate() {
        for (ri, r) in poly.iter().enumerate() {
            st.rings_checked += 1;
            let n = r.len();
            if n < 4 {
                return Err(format!("ring {} of polygon {} has only {} points: {:?}", ri, pi, n, r));
            }
            if r[0] != r[n - 1] {
                return Err(format!("ring {} of polygon {} is not closed: first {:?} last {:?}", ri, pi, r[0], r[n - 1]));
            }
            if assembled {
                for i in 0..n - 1 {
                    if r[i] == r[i + 1] {
                        return Err(format!("ring {} of polygon {} has a zero-length edge at {:?}", ri, pi, r[i]));
                    }
                }
            }
            let mut distinct: Vec<Pt> = r.clone();
            distinct.sort_by(|a, b| a.partial_cmp(b).unwrap());
            distinct.dedup();
            if distinct.len() < 3 {
                return Err(format!("ring {} of polygon {} has fewer than three distinct vertices: {:?}", ri, pi, r));
            }
            let a2 = ring_area2(r);
            // (a self-crossing input ring handed back unchanged may enclose zero net area)
            if a2 == 0.0 && (assembled || !case.self_crossing) {
                return Err(format!("ring {} of polygon {} has zero area: {:?}", ri, pi, r));
            }
            if assembled && a2 < 0.0 {
                return Err(format!("ring {} of polygon {} (assembled by the sweep) is clockwise, area2={}", ri, pi, a2));
            }
            let mut rs = Vec::new();
            ring_segs(r, &mut rs);
            for e in rs {
                st.edges_checked += 1;
                // the edge must lie on one input edge
                let mut ok = false;
                for s in &in_segs {
                    let good = if tol == 0.0 { on_seg(*s, e.0) && on_seg(*s, e.1) } else { dist_pt_seg(e.0, *s) <= tol && dist_pt_seg(e.1, *s) <= tol };
                    if good {
                        ok = true;
                        break;
                    }
                }
                if !ok {
                    return Err(format!("result edge {:?}-{:?} (ring {} of polygon {}) does not lie on any input edge", e.0, e.1, ri, pi));
                }
            }
            for &v in &r[..n - 1] {
                if is_in_vert(v) {
                    st.vertices_identical += 1;
                    continue;
                }
                if !assembled {
                    return Err(format!("vertex {:?} of a ring handed back unchanged is not an input vertex", v));
                }
                // must be (within tolerance of) the intersection point of two input edges
                let near: Vec<&Seg> = in_segs.iter().filter(|s| if tol == 0.0 { on_seg(**s, v) } else { dist_pt_seg(v, **s) <= tol }).collect();
                let mut ok = false;
                'pairs: for i in 0..near.len() {
                    for j in i + 1..near.len() {
                        let (s, t) = (*near[i], *near[j]);
                        if tol == 0.0 {
                            // exact: v lies on both edges (filter above) and the edges are not collinear
                            if orient(s.0, s.1, t.0) != 0 || orient(s.0, s.1, t.1) != 0 {
                                ok = true;
                                st.exact_vertices += 1;
                                break 'pairs;
                            }
                        } else if case.integer {
                            if let Some((xn, yn, dn)) = cross_point_int(s, t) {
                                let (ex, ey) = (xn as f64 / dn as f64, yn as f64 / dn as f64);
                                if (ex - v.0).abs() <= tol && (ey - v.1).abs() <= tol {
                                    ok = true;
                                    break 'pairs;
                                }
                            }
                        } else if let Some(x) = line_x(s, t) {
                            if (x.0 - v.0).abs() <= tol && (x.1 - v.1).abs() <= tol {
                                ok = true;
                                break 'pairs;
                            }
                        }
                    }
                }
                if !ok {
                    return Err(format!(
                        "vertex {:?} (ring {} of polygon {}) is neither an input vertex nor within tolerance {:e} of the intersection of two input edges",
                        v, ri, pi, tol
                    ));
                }
                st.vertices_intersection += 1;
            }
        }
    }
    Ok(())
}

pub fn bboxes_disjoint(a: &MP, b: &MP) -> bool {
    match (bbox(a), bbox(b)) {
        (Some((alo, ahi)), Some((blo, bhi))) => alo.0 > bhi.0 || blo.0 > ahi.0 || alo.1 > bhi.1 || blo.1 > ahi.1,
        _ => true,
    }
}

// ------------------------------------------------------------------------------------------
// C05: consistency of the operations among each other

pub struct FiveResults {
    pub inter: MP,
    pub union: MP,
    pub a_minus_b: MP,
    pub b_minus_a: MP,
    pub xor: MP,
}

pub fn check_consistency(w: &Witnesses, r: &FiveResults, a: &MP, b: &MP, exact: bool, scale: f64, self_crossing: bool) -> Result<usize, String> {
    let (mi, mu, md, me, mx) = (membership(w, &r.inter), membership(w, &r.union), membership(w, &r.a_minus_b), membership(w, &r.b_minus_a), membership(w, &r.xor));
    for k in 0..w.pts.len() {
        let p = &w.pts[k];
        let cnt = mi[k] as u32 + md[k] as u32 + me[k] as u32;
        if cnt > 1 {
            return Err(format!("witness ({:?},{:?}) lies in {} of intersection / A-B / B-A (must be pairwise disjoint)", p.x, p.y, cnt));
        }
        if (cnt == 1) != mu[k] {
            return Err(format!("witness ({:?},{:?}): in intersection|A-B|B-A = {} but in union = {}", p.x, p.y, cnt == 1, mu[k]));
        }
        if mx[k] != (md[k] || me[k]) {
            return Err(format!("witness ({:?},{:?}): in xor = {} but in (A-B)|(B-A) = {}", p.x, p.y, mx[k], md[k] || me[k]));
        }
    }
    if !self_crossing {
        let (aa, ab) = (mp_area2(a), mp_area2(b));
        let (ai, au, ad, ae, ax) = (mp_area2(&r.inter), mp_area2(&r.union), mp_area2(&r.a_minus_b), mp_area2(&r.b_minus_a), mp_area2(&r.xor));
        let tol = if exact { 0.0 } else { 1e-9 * scale * scale * 64.0 };
        let chk = |name: &str, lhs: f64, rhs: f64| -> Result<(), String> {
            if (lhs - rhs).abs() > tol {
                Err(format!("area identity {} fails: {:?} vs {:?} (twice the areas, tolerance {:e})", name, lhs, rhs, tol))
            } else {
                Ok(())
            }
        };
        chk("area(intersection)+area(union)=area(A)+area(B)", ai + au, aa + ab)?;
        chk("area(xor)=area(union)-area(intersection)", ax, au - ai)?;
        chk("area(A-B)=area(A)-area(intersection)", ad, aa - ai)?;
        chk("area(B-A)=area(B)-area(intersection)", ae, ab - ai)?;
    }
    Ok(w.pts.len())
}

/// region equality of two multipolygons at the witnesses (structural reading)
pub fn same_region(w: &Witnesses, x: &MP, y: &MP) -> Result<(), String> {
    for p in &w.pts {
        let (a, b) = (in_mp(x, p.x, p.y), in_mp(y, p.x, p.y));
        if a != b {
            return Err(format!("regions differ at witness ({:?},{:?}): {} vs {}", p.x, p.y, a, b));
        }
    }
    Ok(())
}
