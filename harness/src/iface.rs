//! The boundary to the library under test: conversions, guarded calls, hook access.

use crate::geom::*;
use geo_booleanop::boolean::{BooleanOp, Float, Operation};
use geo_booleanop::verif as hooks;
use geo_types::{Coord, LineString, MultiPolygon, Polygon};
use std::panic::{catch_unwind, AssertUnwindSafe};

pub trait Real: Float + 'static {
    fn from64(v: f64) -> Self;
    const NAME: &'static str;
    const IS_F32: bool;
}
impl Real for f64 {
    fn from64(v: f64) -> f64 {
        v
    }
    const NAME: &'static str = "f64";
    const IS_F32: bool = false;
}
impl Real for f32 {
    fn from64(v: f64) -> f32 {
        v as f32
    }
    const NAME: &'static str = "f32";
    const IS_F32: bool = true;
}

pub fn lib_op(op: Op) -> Operation {
    match op {
        Op::Intersection => Operation::Intersection,
        Op::Union => Operation::Union,
        Op::Difference => Operation::Difference,
        Op::Xor => Operation::Xor,
    }
}

pub fn to_geo_ring<F: Real>(r: &Ring) -> LineString<F> {
    LineString(r.iter().map(|q| Coord { x: F::from64(q.0), y: F::from64(q.1) }).collect())
}

pub fn to_geo_poly<F: Real>(p: &Poly) -> Polygon<F> {
    // NB: Polygon::new closes unclosed rings; inputs produced by the generators are closed already.
    let ext = if p.is_empty() { LineString(vec![]) } else { to_geo_ring(&p[0]) };
    Polygon::new(ext, p.iter().skip(1).map(|r| to_geo_ring(r)).collect())
}

pub fn to_geo<F: Real>(mp: &MP) -> MultiPolygon<F> {
    MultiPolygon(mp.iter().map(|p| to_geo_poly(p)).collect())
}

pub fn from_geo<F: Real>(mp: &MultiPolygon<F>) -> MP {
    mp.0.iter()
        .map(|p| {
            std::iter::once(p.exterior())
                .chain(p.interiors().iter())
                .map(|r| r.0.iter().map(|c| (c.x.into(), c.y.into())).collect())
                .collect()
        })
        .collect()
}

/// which of the four trait implementations to go through
#[derive(Clone, Copy, Debug, PartialEq, Eq)]
pub enum Pairing {
    MM,
    PM,
    MP,
    PP,
}
pub const PAIRINGS: [Pairing; 4] = [Pairing::MM, Pairing::PM, Pairing::MP, Pairing::PP];

impl Pairing {
    pub fn applicable(self, a: &MP, b: &MP) -> bool {
        match self {
            Pairing::MM => true,
            Pairing::PM => a.len() == 1,
            Pairing::MP => b.len() == 1,
            Pairing::PP => a.len() == 1 && b.len() == 1,
        }
    }
    pub fn name(self) -> &'static str {
        match self {
            Pairing::MM => "MultiPolygon x MultiPolygon",
            Pairing::PM => "Polygon x MultiPolygon",
            Pairing::MP => "MultiPolygon x Polygon",
            Pairing::PP => "Polygon x Polygon",
        }
    }
}

#[derive(Clone, Debug, PartialEq)]
pub enum Failure {
    /// the library panicked; message and location as far as known
    Panic(String),
    /// a loop exceeded the step budget armed by the harness
    Budget(String),
}

impl Failure {
    pub fn symptom(&self) -> String {
        match self {
            Failure::Panic(m) => format!("panic:{}", panic_class(m)),
            Failure::Budget(site) => format!("budget:{}", site),
        }
    }
}

/// reduce a panic message to a stable class (no numbers that vary with the input)
pub fn panic_class(msg: &str) -> String {
    if msg.contains("index out of bounds") {
        "index out of bounds".into()
    } else if msg.contains("Sweep line misses event") {
        "sweep line misses event".into()
    } else if msg.contains("already borrowed") || msg.contains("already mutably borrowed") {
        "refcell borrow".into()
    } else if msg.contains("unwrap") {
        "unwrap on None".into()
    } else if msg.contains("overflow") {
        "arithmetic overflow".into()
    } else {
        let m: String = msg.chars().filter(|c| !c.is_ascii_digit()).take(80).collect();
        m
    }
}

thread_local! {
    static LAST_PANIC_LOCATION: std::cell::RefCell<String> = const { std::cell::RefCell::new(String::new()) };
}

pub fn install_panic_hook() {
    std::panic::set_hook(Box::new(|info| {
        let loc = info.location().map(|l| format!("{}:{}", l.file(), l.line())).unwrap_or_default();
        let _ = LAST_PANIC_LOCATION.try_with(|l| *l.borrow_mut() = loc);
    }));
}

pub fn payload_to_string(e: Box<dyn std::any::Any + Send>) -> String {
    let msg = e.downcast_ref::<String>().cloned().or_else(|| e.downcast_ref::<&str>().map(|s| s.to_string())).unwrap_or_else(|| "<non-string panic payload>".into());
    let loc = LAST_PANIC_LOCATION.try_with(|l| l.borrow().clone()).unwrap_or_default();
    format!("{} @{}", msg, loc)
}

/// step budgets from the input size (C03): sweep events bounded by a fixed quadratic polynomial
pub fn sweep_budget(n_edges: usize) -> u64 {
    let n = n_edges as u64;
    4 * n * n + 8 * n + 64
}

pub fn arm_budgets(n_edges: usize) {
    let sweep = sweep_budget(n_edges);
    hooks::reset_steps();
    hooks::set_budget(hooks::Loop::Sweep, sweep);
    // every result event can be moved at most past every other: passes <= events + 1
    hooks::set_budget(hooks::Loop::BubblePass, sweep + 1);
    hooks::set_budget(hooks::Loop::ContourStep, sweep + 1);
    hooks::set_budget(hooks::Loop::NextPos, sweep.saturating_mul(sweep.min(1 << 20)));
    // at most six tree operations per event, each of which may in the worst case walk the whole status (<= 2n segments)
    hooks::set_budget(hooks::Loop::SplayStep, sweep.saturating_mul(6 * (4 * n_edges as u64 + 16)));
}

pub fn disarm_budgets() {
    for l in [hooks::Loop::Sweep, hooks::Loop::BubblePass, hooks::Loop::ContourStep, hooks::Loop::NextPos, hooks::Loop::SplayStep] {
        hooks::set_budget(l, u64::MAX);
    }
}

/// Run a closure with panics caught and classified (budget excess vs. other panic); budgets are the caller's business.
pub fn caught<R>(f: impl FnOnce() -> R) -> Result<R, Failure> {
    match catch_unwind(AssertUnwindSafe(f)) {
        Ok(v) => Ok(v),
        Err(e) => {
            let msg = payload_to_string(e);
            if let Some(pos) = msg.find("verif-budget-exceeded site=") {
                let rest = &msg[pos + "verif-budget-exceeded site=".len()..];
                let site: String = rest.chars().take_while(|c| !c.is_whitespace()).collect();
                Err(Failure::Budget(site))
            } else {
                Err(Failure::Panic(msg))
            }
        }
    }
}

/// Run a closure that calls into the library with budgets armed and panics caught.
pub fn guarded<R>(n_edges: usize, f: impl FnOnce() -> R) -> Result<R, Failure> {
    arm_budgets(n_edges);
    let r = catch_unwind(AssertUnwindSafe(f));
    disarm_budgets();
    match r {
        Ok(v) => Ok(v),
        Err(e) => {
            let msg = payload_to_string(e);
            if let Some(pos) = msg.find("verif-budget-exceeded site=") {
                let rest = &msg[pos + "verif-budget-exceeded site=".len()..];
                let site: String = rest.chars().take_while(|c| !c.is_whitespace()).collect();
                Err(Failure::Budget(site))
            } else {
                Err(Failure::Panic(msg))
            }
        }
    }
}

/// One Boolean operation through the public trait, result widened to f64.
pub fn run_op<F: Real>(a: &MP, b: &MP, op: Op, pairing: Pairing) -> Result<MP, Failure> {
    let n = edge_count(a) + edge_count(b);
    let ga: MultiPolygon<F> = to_geo(a);
    let gb: MultiPolygon<F> = to_geo(b);
    let lop = lib_op(op);
    guarded(n, || {
        let r: MultiPolygon<F> = match pairing {
            Pairing::MM => ga.boolean(&gb, lop),
            Pairing::PM => ga.0[0].boolean(&gb, lop),
            Pairing::MP => ga.boolean(&gb.0[0], lop),
            Pairing::PP => ga.0[0].boolean(&gb.0[0], lop),
        };
        from_geo(&r)
    })
}

/// through the named convenience methods instead of `boolean`
pub fn run_op_named<F: Real>(a: &MP, b: &MP, op: Op) -> Result<MP, Failure> {
    let n = edge_count(a) + edge_count(b);
    let ga: MultiPolygon<F> = to_geo(a);
    let gb: MultiPolygon<F> = to_geo(b);
    guarded(n, || {
        let r = match op {
            Op::Intersection => ga.intersection(&gb),
            Op::Union => ga.union(&gb),
            Op::Difference => ga.difference(&gb),
            Op::Xor => ga.xor(&gb),
        };
        from_geo(&r)
    })
}

pub fn run64(a: &MP, b: &MP, op: Op) -> Result<MP, Failure> {
    run_op::<f64>(a, b, op, Pairing::MM)
}

/// snapshot of the hook hit counters as a map
pub fn hits_map() -> std::collections::BTreeMap<String, u64> {
    hooks::hits().into_iter().map(|(k, v)| (k.to_string(), v)).collect()
}

pub fn hit(site: hooks::Site) -> u64 {
    hooks::hit_count(site)
}


/// The four operations on (a, b), called from the destructors of two thread-locals of a short-lived thread: one guard
/// registered before the thread's first library call, one after, so that whatever per-thread state the library keeps has
/// already been destroyed for one of them. Returns, per guard, the four results (or failures). Err = the harness plumbing
/// itself failed (a guard did not report).
pub fn run_at_thread_exit(a: &MP, b: &MP) -> Result<Vec<Vec<Result<MP, Failure>>>, String> {
    use std::sync::mpsc;
    struct Guard {
        a: MP,
        b: MP,
        tx: mpsc::Sender<Vec<Result<MP, Failure>>>,
    }
    impl Drop for Guard {
        fn drop(&mut self) {
            let out: Vec<Result<MP, Failure>> = OPS.iter().map(|&op| run_op::<f64>(&self.a, &self.b, op, Pairing::MM)).collect();
            let _ = self.tx.send(out);
        }
    }
    thread_local! {
        static EARLY: std::cell::RefCell<Option<Guard>> = const { std::cell::RefCell::new(None) };
        static LATE: std::cell::RefCell<Option<Guard>> = const { std::cell::RefCell::new(None) };
    }
    let (tx, rx) = mpsc::channel();
    let (ta, tb) = (a.clone(), b.clone());
    let h = std::thread::spawn(move || {
        EARLY.with(|s| *s.borrow_mut() = Some(Guard { a: ta.clone(), b: tb.clone(), tx: tx.clone() }));
        let _ = run_op::<f64>(&ta, &tb, Op::Union, Pairing::MM);
        LATE.with(|s| *s.borrow_mut() = Some(Guard { a: ta, b: tb, tx }));
    });
    let _ = h.join();
    let mut out = Vec::new();
    while let Ok(r) = rx.recv_timeout(std::time::Duration::from_secs(120)) {
        out.push(r);
        if out.len() == 2 {
            break;
        }
    }
    if out.len() != 2 {
        return Err(format!("only {} of the 2 thread-exit guards reported", out.len()));
    }
    Ok(out)
}
