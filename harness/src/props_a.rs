//! Workers for the whole-operation properties C01..C05.

use crate::ctx::*;
use crate::gen::*;
use crate::geom::*;
use crate::iface::*;
use crate::monitors::*;
use serde_json::{json, Value};

pub fn float_name(f32_run: bool) -> &'static str {
    if f32_run {
        "f32"
    } else {
        "f64"
    }
}

pub fn boolean_replay(prop: &str, case: &Case, op: Option<Op>, f32_run: bool, pairing: Pairing, extra: Value) -> Value {
    json!({"kind": "boolean", "property": prop, "case": case_to_json(case), "operation": op.map(|o| o.name()), "float": float_name(f32_run),
        "pairing": format!("{:?}", pairing), "extra": extra})
}

pub fn parse_pairing(s: &str) -> Pairing {
    match s {
        "PM" => Pairing::PM,
        "MP" => Pairing::MP,
        "PP" => Pairing::PP,
        _ => Pairing::MM,
    }
}

pub fn run_any(a: &MP, b: &MP, op: Op, f32_run: bool, pairing: Pairing) -> Result<MP, Failure> {
    if f32_run {
        run_op::<f32>(a, b, op, pairing)
    } else {
        run_op::<f64>(a, b, op, pairing)
    }
}

/// A case is non-trivial for the whole-operation properties if the full sweep runs on it: both operands
/// have edges and their bounding boxes are not disjoint.
pub fn nontrivial(case: &Case) -> bool {
    edge_count(&case.a) > 0 && edge_count(&case.b) > 0 && !bboxes_disjoint(&case.a, &case.b)
}

pub fn gen_checked(ctx: &mut Ctx, rng: &mut crate::util::Rng, exact_only: bool) -> Option<Case> {
    let mut rejected = 0u64;
    let scale_free = matches!(ctx.prop.as_str(), "C01" | "C02" | "C04" | "C05" | "C13" | "C14" | "C15");
    let case = if exact_only {
        gen_exact(rng, ctx.size())
    } else if scale_free {
        gen_mixed_scaled(rng, ctx.size(), &mut rejected)
    } else {
        gen_mixed(rng, ctx.size(), &mut rejected)
    };
    if case.desc.contains(" scaled by 2^") {
        ctx.cnt("cases_at_extreme_magnitude_2^+-40..200", 1);
    }
    ctx.cnt("generator_rejections_outside_robust_domain", rejected);
    ctx.cnt(&format!("family:{}", case.family), 1);
    if let Err(e) = self_test(&case) {
        ctx.notes.push(format!("HARNESS-ERROR {}", e));
        ctx.cnt("harness_errors", 1);
        return None;
    }
    Some(case)
}

// ------------------------------------------------------------------------------------------
// C01

/// the C01 oracle on one case; returns (symptom, detail) of the first failure
pub fn c01_check(case: &Case, op: Op, f32_run: bool, pairing: Pairing, w: &Witnesses) -> Result<usize, (String, String)> {
    let r = run_any(&case.a, &case.b, op, f32_run, pairing).map_err(|f| (format!("failure:{}", f.symptom()), format!("{:?}", f)))?;
    check_region(w, op, &r).map_err(|m| ("region".to_string(), format!("{} via {}: {}", op.name(), pairing.name(), m)))
}

pub fn c01_worker(ctx: &mut Ctx) {
    let total = ctx.count(200_000, 8_000_000);
    for i in ctx.my_indices(total) {
        if ctx.out_of_time() {
            break;
        }
        let mut rng = ctx.rng("mixed", i);
        let case = match gen_checked(ctx, &mut rng, false) {
            Some(c) => c,
            None => continue,
        };
        let w = witnesses(&case, case.tol(false));
        ctx.cnt("witness_points", w.pts.len() as u64);
        ctx.cnt("arrangement_pieces", w.pieces as u64);
        ctx.cnt("pieces_without_clear_side_point", w.skipped_unclear as u64);
        ctx.cnt("face_centroid_witnesses", w.from_faces as u64);
        ctx.begin("mixed", i, "");
        for op in OPS {
            for pairing in PAIRINGS {
                if !pairing.applicable(&case.a, &case.b) {
                    continue;
                }
                // the multipolygon pairing always; the others on every case where they apply
                ctx.evaluations += 1;
                ctx.cnt(&format!("pairing:{:?}", pairing), 1);
                match c01_check(&case, op, false, pairing, &w) {
                    Ok(n) => ctx.cnt("witness_comparisons", n as u64),
                    Err((sym, detail)) => ctx.violation(&sym, &detail, boolean_replay("C01", &case, Some(op), false, pairing, json!({}))),
                }
                if nontrivial(&case) {
                    ctx.note_nontrivial(case_hash(&case, &format!("{}{:?}", op.name(), pairing)));
                }
            }
        }
        ctx.end();
        if i % 997 == 0 {
            ctx.sample(case_brief(&case));
        }
    }
    crate::props::run_known(ctx, &mut |case, op, f32_run| {
        let w = witnesses(case, case.tol(f32_run));
        c01_check(case, op, f32_run, Pairing::MM, &w).map(|_| ())
    });
    ctx.monitor.insert("hook_hits".into(), json!(hits_map()));
}

// ------------------------------------------------------------------------------------------
// C02

/// constructed configurations named by the property: polygons sitting directly above shared boundary
/// segments, parts touching a vertical edge of another part, deep nesting
pub fn c02_constructed(k: u64) -> Case {
    let sq = |x0: f64, y0: f64, x1: f64, y1: f64| -> Poly { vec![rect_ring(x0, y0, x1, y1)] };
    let holed = |ext: Ring, mut hole: Ring| -> Poly {
        if ring_area2(&hole) > 0.0 {
            hole.reverse();
        }
        vec![ext, hole]
    };
    let (a, b, desc): (MP, MP, &str) = match k % 10 {
        0 => (vec![sq(0., 0., 1., 1.), sq(1., 3., 2., 4.)], vec![sq(0., 0., 2., 1.), sq(0., 3., 1., 4.)], "F1 witness: rectangles above a shared top edge"),
        1 => {
            // square with a triangular hole touching its left side (F2 witness), against a box overlapping it
            let mut hole = vec![(0.0, 2.0), (2.0, 1.0), (2.0, 3.0), (0.0, 2.0)];
            hole.reverse();
            (vec![vec![rect_ring(0., 0., 4., 4.), hole]], vec![sq(1., -1., 3., 5.)], "F2 witness: hole touching the exterior's vertical side")
        }
        2 => {
            let (a, b) = nested_squares(6);
            (a, b, "nested square rings alternating between the operands, depth 6")
        }
        3 => (
            vec![sq(0., 0., 2., 2.), vec![vec![(2.0, 1.0), (4.0, 0.0), (4.0, 2.0), (2.0, 1.0)]]],
            vec![sq(1., 0.5, 3., 1.5)],
            "part touching the vertical side of another part of the same operand",
        ),
        4 => (
            vec![sq(0., 0., 4., 1.), sq(0., 2., 4., 3.), sq(0., 4., 4., 5.)],
            vec![sq(0., 1., 4., 2.), sq(0., 3., 4., 4.), sq(1., 5., 2., 6.)],
            "stack of slabs sitting on shared edges",
        ),
        5 => {
            let (a, b) = star_through_vertex(4);
            (a, b, "triangles of both operands through one vertex")
        }
        // a holed clipping polygon resting on an edge of the subject that starts further left (the clipping edge enters
        // the status while the subject's piece below it does not exist yet), with the hole directly above the shared piece
        6 => (
            vec![vec![vec![(0., 0.), (20., 0.), (18., 12.), (2., 12.), (0., 0.)]]],
            vec![holed(vec![(5., 0.), (15., 0.), (14., 8.), (6., 8.), (5., 0.)], vec![(8., 2.), (12., 3.), (9., 5.), (8., 2.)])],
            "holed clipping polygon resting on the subject's bottom edge, which starts further left (slanted sides)",
        ),
        7 => (
            vec![sq(0., 0., 20., 12.)],
            vec![holed(rect_ring(5., 0., 15., 8.), rect_ring(8., 2., 12., 5.))],
            "holed clipping rectangle resting on the subject's bottom edge, which starts further left",
        ),
        8 => (
            vec![sq(0., 0., 20., 12.)],
            vec![holed(rect_ring(5., 4., 15., 12.), rect_ring(8., 6., 12., 9.))],
            "holed clipping rectangle hanging from the subject's top edge",
        ),
        _ => (
            vec![holed(rect_ring(0., 3., 8., 9.), rect_ring(2., 5., 5., 7.))],
            vec![sq(0., 0., 20., 12.)],
            "holed subject rectangle flush with the clipping's left side",
        ),
    };
    Case { family: "S-constructed", desc: desc.into(), a, b, exact: true, exact_f32: true, integer: true, f32_ok: true, self_crossing: false, faces: vec![] }
}

pub fn c02_check(case: &Case, op: Op, f32_run: bool, w: &Witnesses, st: &mut StructStats) -> Result<(), (String, String)> {
    c02_check_through(case, op, f32_run, w, st, Pairing::MM)
}

pub fn c02_check_through(case: &Case, op: Op, f32_run: bool, w: &Witnesses, st: &mut StructStats, pairing: Pairing) -> Result<(), (String, String)> {
    let r = run_any(&case.a, &case.b, op, f32_run, pairing).map_err(|f| (format!("failure:{}", f.symptom()), format!("{:?}", f)))?;
    let exact = if f32_run { case.exact_f32 } else { case.exact };
    check_structure(&r, w, exact, st).map_err(|m| ("structure".to_string(), format!("{}: {}", op.name(), m)))
}

fn gen_c02(ctx: &mut Ctx, rng: &mut crate::util::Rng, i: u64) -> Option<Case> {
    if i % 50 < 10 {
        return Some(c02_constructed(i % 50));
    }
    // shared-edge families weighted up
    let size = ctx.size();
    let (grid, lat, tri) = if size <= 1 { (7, 4, 5) } else { (12, 7, 8) };
    let case = match rng.below(10) {
        0..=3 => gen_rect(rng, grid),
        4..=7 => gen_lattice(rng, lat),
        8 => gen_tri(rng, tri, false),
        _ => {
            let mut rej = 0;
            let c = gen_mixed(rng, size, &mut rej);
            ctx.cnt("generator_rejections_outside_robust_domain", rej);
            c
        }
    };
    ctx.cnt(&format!("family:{}", case.family), 1);
    if let Err(e) = self_test(&case) {
        ctx.notes.push(format!("HARNESS-ERROR {}", e));
        ctx.cnt("harness_errors", 1);
        return None;
    }
    Some(case)
}

pub fn c02_worker(ctx: &mut Ctx) {
    let total = ctx.count(200_000, 8_000_000);
    let mut st = StructStats::default();
    for i in ctx.my_indices(total) {
        if ctx.out_of_time() {
            break;
        }
        let mut rng = ctx.rng("shared", i);
        let case = match gen_c02(ctx, &mut rng, i) {
            Some(c) => c,
            None => continue,
        };
        let w = witnesses(&case, case.tol(false));
        ctx.begin("shared", i, "");
        // "every result": through whichever trait pairing the operands allow, in rotation
        let applicable: Vec<Pairing> = crate::iface::PAIRINGS.iter().cloned().filter(|p| p.applicable(&case.a, &case.b)).collect();
        let pairing = applicable[(i / 5) as usize % applicable.len()];
        if pairing != Pairing::MM {
            ctx.cnt("cases_through_a_bare_polygon_pairing", 1);
        }
        for op in OPS {
            ctx.evaluations += 1;
            if let Err((sym, detail)) = c02_check_through(&case, op, false, &w, &mut st, pairing) {
                ctx.violation(&sym, &format!("[{}] {}", pairing.name(), detail), boolean_replay("C02", &case, Some(op), false, pairing, json!({})));
            }
            if nontrivial(&case) {
                ctx.note_nontrivial(case_hash(&case, op.name()));
            }
        }
        ctx.end();
        if i % 997 == 0 {
            ctx.sample(case_brief(&case));
        }
    }
    crate::props::run_known(ctx, &mut |case, op, f32_run| {
        let w = witnesses(case, case.tol(f32_run));
        c02_check(case, op, f32_run, &w, &mut StructStats::default())
    });
    ctx.monitor.insert(
        "structure_monitor".into(),
        json!({"holes_checked": st.holes_checked, "exterior_edges_checked": st.polygon_pairs_checked, "witness_reads": st.witness_reads,
            "boundary_pieces_checked_for_double_use": st.pieces_checked, "edges_without_clear_side_point": st.skipped_interior_points}),
    );
    ctx.monitor.insert("hook_hits".into(), json!(hits_map()));
}

// ------------------------------------------------------------------------------------------
// C04

pub fn c04_check(case: &Case, op: Op, f32_run: bool, st: &mut ProvStats) -> Result<(), (String, String)> {
    // hook H5: the points at which segments were actually divided during this call
    geo_booleanop::verif::division_log_enable(true);
    let res = run_any(&case.a, &case.b, op, f32_run, Pairing::MM);
    let divisions = geo_booleanop::verif::take_division_log();
    geo_booleanop::verif::division_log_enable(false);
    let r = res.map_err(|f| (format!("failure:{}", f.symptom()), format!("{:?}", f)))?;
    let assembled = !bboxes_disjoint(&case.a, &case.b);
    check_provenance(case, &r, case.tol(f32_run), assembled, st).map_err(|m| ("provenance".to_string(), format!("{}: {}", op.name(), m)))?;
    // every result vertex is bit-identical to an input vertex or to a point at which a segment was divided
    let mut known: std::collections::HashSet<(u64, u64)> = std::collections::HashSet::new();
    for q in rings(&case.a).chain(rings(&case.b)).flatten() {
        known.insert((q.0.to_bits(), q.1.to_bits()));
        known.insert(((q.0 + 0.0).to_bits(), (q.1 + 0.0).to_bits()));
    }
    for d in &divisions {
        known.insert((d.used.0.to_bits(), d.used.1.to_bits()));
        // a division must cut strictly inside the segment it divides, at a point inside its bounding box
        let (l, rr, u) = (d.left, d.right, d.used);
        let inside = u.0 >= l.0.min(rr.0) && u.0 <= l.0.max(rr.0) && u.1 >= l.1.min(rr.1) && u.1 <= l.1.max(rr.1);
        let bumped = d.used != d.requested;
        if (!inside && !bumped) || u == l || u == rr {
            return Err(("provenance".into(), format!("{}: segment {:?}-{:?} was divided at {:?}, which is not strictly inside it", op.name(), l, rr, u)));
        }
    }
    st.divisions_logged += divisions.len();
    for v in rings(&r).flatten() {
        if !known.contains(&(v.0.to_bits(), v.1.to_bits())) {
            return Err(("provenance".into(), format!("{}: result vertex {:?} is neither an input vertex nor one of the {} points at which segments were divided", op.name(), v, divisions.len())));
        }
    }
    Ok(())
}

pub fn c04_worker(ctx: &mut Ctx) {
    let total = ctx.count(200_000, 8_000_000);
    let mut st = ProvStats::default();
    for i in ctx.my_indices(total) {
        if ctx.out_of_time() {
            break;
        }
        let mut rng = ctx.rng("mixed", i);
        let case = match gen_checked(ctx, &mut rng, false) {
            Some(c) => c,
            None => continue,
        };
        if case.self_crossing {
            // intersection points of a ring with itself are input-edge intersections as well: covered
        }
        ctx.begin("mixed", i, "");
        for op in OPS {
            ctx.evaluations += 1;
            if let Err((sym, detail)) = c04_check(&case, op, false, &mut st) {
                ctx.violation(&sym, &detail, boolean_replay("C04", &case, Some(op), false, Pairing::MM, json!({})));
            }
            if nontrivial(&case) {
                ctx.note_nontrivial(case_hash(&case, op.name()));
            }
        }
        if i % 8 == 3 && !case.self_crossing {
            // an operand combined with itself (or an equal copy), written clockwise: every edge is a coincident pair, no
            // vertex is new, and the rings that come back are assembled by the sweep, hence counter-clockwise
            let rev = |mp: &MP| -> MP { mp.iter().map(|p| p.iter().map(|r| r.iter().rev().cloned().collect()).collect()).collect() };
            let src = if i % 16 == 3 { &case.a } else { &case.b };
            if !src.is_empty() {
                let mut selfcase = case.clone();
                selfcase.a = rev(src);
                selfcase.b = selfcase.a.clone();
                selfcase.faces = vec![];
                ctx.cnt("self_operations_on_clockwise_operands", 1);
                for op in [Op::Intersection, Op::Union] {
                    ctx.evaluations += 1;
                    if let Err((sym, detail)) = c04_check(&selfcase, op, false, &mut st) {
                        ctx.violation(&sym, &format!("operand combined with an equal copy of itself (written clockwise): {}", detail), boolean_replay("C04", &selfcase, Some(op), false, Pairing::MM, json!({})));
                    }
                }
            }
        }
        ctx.end();
        if i % 997 == 0 {
            ctx.sample(case_brief(&case));
        }
    }
    if ctx.shard == 1 % ctx.nshards && ctx.only_index.is_none() {
        // a result with more than 2^16 events (anything indexed or counted in 16 bits wraps there): every edge of every
        // result of the large comb must be a piece of an axis-parallel operand edge, and the areas are known exactly
        let n = if ctx.tier == Tier::Quick { 20_000 } else { 60_000 };
        ctx.begin("large", n as u64, "");
        match comb_five(n) {
            Ok(rs) => {
                for (name, r, want) in rs {
                    ctx.evaluations += 1;
                    ctx.max("max_result_vertices", rings(&r).map(|x| x.len() as u64).sum());
                    match comb_result_sanity(&r, n) {
                        Ok(e) => ctx.cnt("large_result_edges_traced_to_operand_edges", e),
                        Err(m) => ctx.violation("provenance:large", &format!("{} of the {}-rectangle comb: {}", name, n, m), json!({"kind": "generated", "property": "C04", "label": "large", "index": n, "seed": ctx.seed, "tier": ctx.tier.name(), "variant": ctx.variant})),
                    }
                    if mp_area2(&r) != want {
                        ctx.violation("provenance:large", &format!("{} of the {}-rectangle comb has doubled area {} instead of {}", name, n, mp_area2(&r), want), json!({"kind": "generated", "property": "C04", "label": "large", "index": n, "seed": ctx.seed, "tier": ctx.tier.name(), "variant": ctx.variant}));
                    }
                }
            }
            Err((sym, detail)) => ctx.violation(&sym, &detail, json!({"kind": "generated", "property": "C04", "label": "large", "index": n, "seed": ctx.seed, "tier": ctx.tier.name(), "variant": ctx.variant})),
        }
        ctx.end();
    }
    crate::props::run_known(ctx, &mut |case, op, f32_run| c04_check(case, op, f32_run, &mut ProvStats::default()));
    ctx.monitor.insert(
        "provenance_monitor".into(),
        json!({"result_edges_checked": st.edges_checked, "vertices_bit_identical_to_input": st.vertices_identical, "vertices_at_intersections": st.vertices_intersection,
            "vertices_exactly_at_rational_intersection": st.exact_vertices, "rings_checked": st.rings_checked, "divisions_logged_by_hook": st.divisions_logged}),
    );
    ctx.monitor.insert("hook_hits".into(), json!(hits_map()));
}


// ------------------------------------------------------------------------------------------
// large inputs with analytically known results (result sizes beyond 2^16 events)

/// comb(n) = n rectangles [0,100]x[i,i+1/2] against the box [-1,1]x[-1,n/2] (n even): twice the exact areas of
/// (A, B, intersection, union, A-B, B-A, xor)
pub fn comb_areas2(n: usize) -> [f64; 7] {
    let n = n as f64;
    let (a, b, i) = (100.0 * n, 4.0 * (n / 2.0 + 1.0), 0.5 * n);
    [a, b, i, a + b - i, a - i, b - i, a + b - 2.0 * i]
}

/// Every ring of a result of comb(n) op box: closed, at least 4 distinct vertices, only axis-parallel edges of non-zero
/// length whose endpoints have abscissae from {-1, 0, 1, 100} and ordinates that are multiples of 1/2 in [-1, n] (all
/// input edges are axis-parallel with such endpoints, so anything else is not a piece of an operand edge), exterior
/// counter-clockwise / holes clockwise with non-zero area.
pub fn comb_result_sanity(r: &MP, n: usize) -> Result<u64, String> {
    let mut edges = 0u64;
    for (pi, poly) in r.iter().enumerate() {
        for (ri, ring) in poly.iter().enumerate() {
            if ring.len() < 5 || ring[0] != ring[ring.len() - 1] {
                return Err(format!("ring {} of polygon {} is not a closed ring with at least 4 vertices: {} points", ri, pi, ring.len()));
            }
            for w in ring.windows(2) {
                let (p, q) = (w[0], w[1]);
                edges += 1;
                let axis_parallel = (p.0 == q.0) != (p.1 == q.1);
                let ok_pt = |v: Pt| [-1.0, 0.0, 1.0, 100.0].contains(&v.0) && (v.1 * 2.0).fract() == 0.0 && v.1 >= -1.0 && v.1 <= n as f64;
                if !axis_parallel || !ok_pt(p) || !ok_pt(q) {
                    return Err(format!("result edge {:?}-{:?} (ring {} of polygon {}) does not lie on an edge of either operand", p, q, ri, pi));
                }
            }
            let ar = ring_area2(ring);
            if (ri == 0 && ar <= 0.0) || (ri > 0 && ar >= 0.0) {
                return Err(format!("ring {} of polygon {} has doubled signed area {}", ri, pi, ar));
            }
        }
    }
    Ok(edges)
}

/// the five results of the large comb; (operation name, result, expected doubled area)
pub fn comb_five(n: usize) -> Result<Vec<(&'static str, MP, f64)>, (String, String)> {
    let (a, b) = comb(n);
    let ar = comb_areas2(n);
    let mut out = Vec::new();
    for (name, x, y, op, want) in [("intersection", &a, &b, Op::Intersection, ar[2]), ("union", &a, &b, Op::Union, ar[3]), ("A-B", &a, &b, Op::Difference, ar[4]), ("B-A", &b, &a, Op::Difference, ar[5]), ("xor", &a, &b, Op::Xor, ar[6])] {
        let r = run_any(x, y, op, false, Pairing::MM).map_err(|f| (format!("failure:{}", f.symptom()), format!("{} of the {}-rectangle comb: {:?}", name, n, f)))?;
        out.push((name, r, want));
    }
    Ok(out)
}
// ------------------------------------------------------------------------------------------
// C05

pub fn five(case: &Case, f32_run: bool) -> Result<FiveResults, Failure> {
    five_through(case, f32_run, Pairing::MM)
}

/// the five results of one operand pair, all obtained through one trait pairing (B-A through the mirrored one)
pub fn five_through(case: &Case, f32_run: bool, pairing: Pairing) -> Result<FiveResults, Failure> {
    let mirrored = match pairing {
        Pairing::PM => Pairing::MP,
        Pairing::MP => Pairing::PM,
        p => p,
    };
    Ok(FiveResults {
        inter: run_any(&case.a, &case.b, Op::Intersection, f32_run, pairing)?,
        union: run_any(&case.a, &case.b, Op::Union, f32_run, pairing)?,
        a_minus_b: run_any(&case.a, &case.b, Op::Difference, f32_run, pairing)?,
        b_minus_a: run_any(&case.b, &case.a, Op::Difference, f32_run, mirrored)?,
        xor: run_any(&case.a, &case.b, Op::Xor, f32_run, pairing)?,
    })
}

pub fn c05_check(case: &Case, f32_run: bool, w: &Witnesses) -> Result<usize, (String, String)> {
    c05_check_through(case, f32_run, w, Pairing::MM)
}

pub fn c05_check_through(case: &Case, f32_run: bool, w: &Witnesses, pairing: Pairing) -> Result<usize, (String, String)> {
    let r = five_through(case, f32_run, pairing).map_err(|f| (format!("failure:{}", f.symptom()), format!("{:?}", f)))?;
    let exact = if f32_run { case.exact_f32 } else { case.exact };
    let scale = if f32_run { case.scale() * 1e3 } else { case.scale() };
    check_consistency(w, &r, &case.a, &case.b, exact, scale, case.self_crossing).map_err(|m| ("consistency".to_string(), m))
}

pub fn c05_worker(ctx: &mut Ctx) {
    let total = ctx.count(200_000, 8_000_000);
    for i in ctx.my_indices(total) {
        if ctx.out_of_time() {
            break;
        }
        let mut rng = ctx.rng("mixed", i);
        let case = match gen_checked(ctx, &mut rng, false) {
            Some(c) => c,
            None => continue,
        };
        let w = witnesses(&case, case.tol(false));
        ctx.begin("mixed", i, "");
        ctx.evaluations += 1;
        // the operations must be consistent through whichever trait pairing the caller uses: rotate through the applicable ones
        let mirrored = |p: Pairing| match p {
            Pairing::PM => Pairing::MP,
            Pairing::MP => Pairing::PM,
            q => q,
        };
        let applicable: Vec<Pairing> = crate::iface::PAIRINGS.iter().cloned().filter(|p| p.applicable(&case.a, &case.b) && mirrored(*p).applicable(&case.b, &case.a)).collect();
        let pairing = applicable[(i / 3) as usize % applicable.len()];
        ctx.cnt(&format!("pairs_through_{}", pairing.name().replace(' ', "_")), 1);
        match c05_check_through(&case, false, &w, pairing) {
            Ok(n) => ctx.cnt("witness_comparisons", 3 * n as u64),
            Err((sym, detail)) => ctx.violation(&sym, &format!("[{}] {}", pairing.name(), detail), boolean_replay("C05", &case, None, false, pairing, json!({}))),
        }
        if !case.self_crossing {
            ctx.cnt("area_identities_checked", 4);
        }
        if case.exact {
            ctx.cnt("area_identities_checked_exactly", 4);
        }
        if nontrivial(&case) {
            ctx.note_nontrivial(case_hash(&case, ""));
        }
        ctx.end();
        if i % 997 == 0 {
            ctx.sample(case_brief(&case));
        }
    }
    if ctx.shard == 2 % ctx.nshards && ctx.only_index.is_none() {
        // mutual consistency on results with more than 2^16 events: the three area identities, exactly
        let n = if ctx.tier == Tier::Quick { 20_000 } else { 60_000 };
        ctx.begin("large", n as u64, "");
        ctx.evaluations += 1;
        match comb_five(n) {
            Ok(rs) => {
                let ar: Vec<f64> = rs.iter().map(|x| mp_area2(&x.1)).collect();
                let (aa, ab) = (comb_areas2(n)[0], comb_areas2(n)[1]);
                let (i, u, d, e, x) = (ar[0], ar[1], ar[2], ar[3], ar[4]);
                ctx.cnt("area_identities_checked_on_large_results", 4);
                if i + u != aa + ab || x != u - i || d != aa - i || e != ab - i {
                    ctx.violation("consistency:large", &format!("area identities fail on the {}-rectangle comb: doubled areas intersection {} union {} A-B {} B-A {} xor {}, A {} B {}", n, i, u, d, e, x, aa, ab), json!({"kind": "generated", "property": "C05", "label": "large", "index": n, "seed": ctx.seed, "tier": ctx.tier.name(), "variant": ctx.variant}));
                }
            }
            Err((sym, detail)) => ctx.violation(&sym, &detail, json!({"kind": "generated", "property": "C05", "label": "large", "index": n, "seed": ctx.seed, "tier": ctx.tier.name(), "variant": ctx.variant})),
        }
        ctx.end();
    }
    ctx.monitor.insert("hook_hits".into(), json!(hits_map()));
}
