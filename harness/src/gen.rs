//! Workload generators. Operands are built as unions of faces of a tessellation, so the truth is
//! known by construction (family D1, D2, D4), or as polygons in general position whose
//! membership is decided by the independent even-odd oracle (D3, D5).

use crate::geom::*;
use crate::util::Rng;
use std::collections::HashMap;

pub type P = (i64, i64);

/// A tessellation: faces as counter-clockwise vertex loops over abstract integer vertices.
#[derive(Clone, Debug)]
pub struct Tess {
    pub faces: Vec<Vec<P>>,
    pub w: usize,
    pub h: usize,
    /// faces per grid cell (1 for the grid, 2 for the triangulated grid, 4 for the union jack)
    pub per_cell: usize,
}

fn cross(a: P, b: P) -> i64 {
    a.0 * b.1 - a.1 * b.0
}

impl Tess {
    pub fn grid(w: usize, h: usize) -> Tess {
        let mut faces = Vec::new();
        for y in 0..h as i64 {
            for x in 0..w as i64 {
                faces.push(vec![(x, y), (x + 1, y), (x + 1, y + 1), (x, y + 1)]);
            }
        }
        Tess { faces, w, h, per_cell: 1 }
    }
    /// union-jack lattice scaled by 2: every 2x2 cell is cut into 4 triangles by its diagonals
    pub fn union_jack(w: usize, h: usize) -> Tess {
        let mut faces = Vec::new();
        for y in 0..h as i64 {
            for x in 0..w as i64 {
                let (x0, y0, x1, y1) = (2 * x, 2 * y, 2 * x + 2, 2 * y + 2);
                let c = (2 * x + 1, 2 * y + 1);
                faces.push(vec![(x0, y0), (x1, y0), c]);
                faces.push(vec![(x1, y0), (x1, y1), c]);
                faces.push(vec![(x1, y1), (x0, y1), c]);
                faces.push(vec![(x0, y1), (x0, y0), c]);
            }
        }
        Tess { faces, w, h, per_cell: 4 }
    }
    /// grid cells split by a random diagonal each (a conforming triangulation)
    pub fn tri_grid(rng: &mut Rng, w: usize, h: usize) -> Tess {
        let mut faces = Vec::new();
        for y in 0..h as i64 {
            for x in 0..w as i64 {
                let (a, b, c, d) = ((x, y), (x + 1, y), (x + 1, y + 1), (x, y + 1));
                if rng.below(2) == 0 {
                    faces.push(vec![a, b, c]);
                    faces.push(vec![a, c, d]);
                } else {
                    faces.push(vec![a, b, d]);
                    faces.push(vec![b, c, d]);
                }
            }
        }
        Tess { faces, w, h, per_cell: 2 }
    }

    pub fn centroid(&self, f: usize, map: &dyn Fn(P) -> Pt) -> Pt {
        let v = &self.faces[f];
        let n = v.len() as f64;
        (v.iter().map(|p| map(*p).0).sum::<f64>() / n, v.iter().map(|p| map(*p).1).sum::<f64>() / n)
    }

    /// Trace the boundary of the union of the selected faces into a valid multipolygon: one polygon
    /// per edge-connected component, simple rings (walks that touch themselves are split), exterior
    /// counter-clockwise / holes clockwise, parts touching only at points.
    pub fn to_mp(&self, sel: &[bool], merge: bool, map: &dyn Fn(P) -> Pt) -> MP {
        let mut dir: HashMap<(P, P), usize> = HashMap::new();
        for (fi, f) in self.faces.iter().enumerate() {
            if !sel[fi] {
                continue;
            }
            for i in 0..f.len() {
                dir.insert((f[i], f[(i + 1) % f.len()]), fi);
            }
        }
        let mut comp = vec![usize::MAX; self.faces.len()];
        let mut ncomp = 0;
        for s in 0..self.faces.len() {
            if !sel[s] || comp[s] != usize::MAX {
                continue;
            }
            comp[s] = ncomp;
            let mut stack = vec![s];
            while let Some(fi) = stack.pop() {
                let f = &self.faces[fi];
                for i in 0..f.len() {
                    if let Some(&nf) = dir.get(&(f[(i + 1) % f.len()], f[i])) {
                        if comp[nf] == usize::MAX {
                            comp[nf] = ncomp;
                            stack.push(nf);
                        }
                    }
                }
            }
            ncomp += 1;
        }
        let mut out: HashMap<P, Vec<(P, usize, bool)>> = HashMap::new();
        for (&(u, v), &fi) in dir.iter() {
            if !dir.contains_key(&(v, u)) {
                out.entry(u).or_default().push((v, fi, false));
            }
        }
        let mut starts: Vec<P> = out.keys().cloned().collect();
        starts.sort();
        for v in out.values_mut() {
            v.sort();
        }
        let mut rings: Vec<(usize, Vec<P>)> = Vec::new();
        for s in starts {
            loop {
                let first = {
                    let v = out.get_mut(&s).unwrap();
                    match v.iter_mut().find(|e| !e.2) {
                        Some(e) => {
                            e.2 = true;
                            *e
                        }
                        None => break,
                    }
                };
                let cid = comp[first.1];
                let mut walk = vec![s];
                let mut prev = s;
                let mut cur = first.0;
                while cur != s {
                    walk.push(cur);
                    let back = (prev.0 - cur.0, prev.1 - cur.1);
                    let outs = out.get_mut(&cur).unwrap();
                    let mut best: Option<usize> = None;
                    for i in 0..outs.len() {
                        if outs[i].2 {
                            continue;
                        }
                        best = Some(match best {
                            None => i,
                            Some(b) => {
                                let db = (outs[b].0 .0 - cur.0, outs[b].0 .1 - cur.1);
                                let di = (outs[i].0 .0 - cur.0, outs[i].0 .1 - cur.1);
                                if cw_before(back, di, db) {
                                    i
                                } else {
                                    b
                                }
                            }
                        });
                    }
                    let b = best.expect("generator: dangling boundary walk");
                    outs[b].2 = true;
                    prev = cur;
                    cur = outs[b].0;
                }
                let mut stack: Vec<P> = Vec::new();
                for v in walk {
                    if let Some(pos) = stack.iter().position(|q| *q == v) {
                        let cyc: Vec<P> = stack.drain(pos..).collect();
                        rings.push((cid, cyc));
                    }
                    stack.push(v);
                }
                rings.push((cid, stack));
            }
        }
        let mut ext: Vec<Option<Vec<P>>> = vec![None; ncomp];
        let mut holes: Vec<Vec<Vec<P>>> = vec![Vec::new(); ncomp];
        for (cid, r) in rings {
            let mut a = 0i64;
            for i in 0..r.len() {
                a += cross(r[i], r[(i + 1) % r.len()]);
            }
            assert!(a != 0, "generator: zero area ring {:?}", r);
            if a > 0 {
                assert!(ext[cid].is_none(), "generator: two exteriors for one component");
                ext[cid] = Some(r);
            } else {
                holes[cid].push(r);
            }
        }
        let conv = |r: &Vec<P>| -> Ring {
            let n = r.len();
            let mut pts = Vec::new();
            for i in 0..n {
                let (p, c, nx) = (r[(i + n - 1) % n], r[i], r[(i + 1) % n]);
                let collinear = cross((c.0 - p.0, c.1 - p.1), (nx.0 - c.0, nx.1 - c.1)) == 0;
                if merge && collinear {
                    continue;
                }
                pts.push(map(c));
            }
            let f = pts[0];
            pts.push(f);
            pts
        };
        let mut polys = Vec::new();
        for cid in 0..ncomp {
            let e = ext[cid].as_ref().expect("generator: component without exterior");
            let mut p = vec![conv(e)];
            p.extend(holes[cid].iter().map(conv));
            polys.push(p);
        }
        polys
    }
}

/// true if direction a comes strictly before direction b when rotating clockwise starting at `from`
fn cw_before(from: P, a: P, b: P) -> bool {
    let (ca, na, da) = cw_key(from, a);
    let (cb, nb, db) = cw_key(from, b);
    if ca != cb {
        return ca < cb;
    }
    na * db < nb * da
}
fn cw_key(from: P, d: P) -> (i32, i128, i128) {
    let dot = (from.0 * d.0 + from.1 * d.1) as i128;
    let cr = (from.0 * d.1 - from.1 * d.0) as i128;
    let len2 = (d.0 * d.0 + d.1 * d.1) as i128;
    let cos_sq_signed_num = dot * dot.abs();
    if cr < 0 {
        (0, -cos_sq_signed_num, len2)
    } else if cr == 0 && dot < 0 {
        (1, 0, 1)
    } else if cr > 0 {
        (2, cos_sq_signed_num, len2)
    } else {
        (3, 0, 1)
    }
}

// ------------------------------------------------------------------------------------------

/// One generated operand pair with everything the monitors need to know about it.
#[derive(Clone, Debug)]
pub struct Case {
    pub family: &'static str,
    pub desc: String,
    pub a: MP,
    pub b: MP,
    /// all arithmetic on this input is exact in f64 (integer / dyadic coordinates, intersection points on the lattice)
    pub exact: bool,
    /// exact as above and additionally in f32
    pub exact_f32: bool,
    /// coordinates are integers (exact i128 reference available even if intersection points are rational)
    pub integer: bool,
    /// coordinates are representable in f32
    pub f32_ok: bool,
    /// rings may cross themselves: operands are read by the even-odd rule
    pub self_crossing: bool,
    /// face centroids with membership known by construction: (point, in A, in B)
    pub faces: Vec<(Pt, bool, bool)>,
}

impl Case {
    pub fn scale(&self) -> f64 {
        max_abs_coord(&[&self.a, &self.b]).max(1e-300)
    }
    /// absolute tolerance for coordinates computed in f64 / f32
    pub fn tol(&self, f32_run: bool) -> f64 {
        if self.family == "D6-shallow" {
            // long thin shapes: the usual relative tolerance (1e-9 of the extent) would exceed the short dimension.
            // Inputs are exact and a computed crossing is off by a few ulps of the long coordinate; allow 64 ulps.
            return self.scale() * if f32_run { 64.0 * (f32::EPSILON as f64) } else { 64.0 * f64::EPSILON };
        }
        if f32_run {
            if self.exact_f32 {
                0.0
            } else {
                1e-4 * self.scale()
            }
        } else if self.exact {
            0.0
        } else {
            1e-9 * self.scale()
        }
    }
    pub fn n_edges(&self) -> usize {
        edge_count(&self.a) + edge_count(&self.b)
    }
}

fn select(rng: &mut Rng, t: &Tess, base: Option<&Vec<bool>>) -> (Vec<bool>, &'static str) {
    let nf = t.faces.len();
    let (w, h, pc) = (t.w, t.h, t.per_cell);
    let cell = |f: usize| -> (usize, usize) { ((f / pc) % w, (f / pc) / w) };
    let kind = rng.below(if base.is_some() { 12 } else { 8 });
    match kind {
        0..=3 => {
            let d = rng.range(15, 85) as u64;
            ((0..nf).map(|_| rng.below(100) < d).collect(), "random")
        }
        4 | 5 => {
            // union of a few blocks with some cut out again: long edges, holes
            let mut s = vec![false; nf];
            for _ in 0..rng.range(1, 4) {
                let (x0, x1) = (rng.below(w as u64) as usize, rng.below(w as u64) as usize);
                let (y0, y1) = (rng.below(h as u64) as usize, rng.below(h as u64) as usize);
                let v = rng.below(4) != 0;
                for f in 0..nf {
                    let (cx, cy) = cell(f);
                    if cx >= x0.min(x1) && cx <= x0.max(x1) && cy >= y0.min(y1) && cy <= y0.max(y1) {
                        s[f] = v;
                    }
                }
            }
            (s, "blocks")
        }
        6 => {
            // concentric rings: holes within holes
            let phase = rng.below(2) as usize;
            (
                (0..nf)
                    .map(|f| {
                        let (cx, cy) = cell(f);
                        let d = cx.min(cy).min(w - 1 - cx).min(h - 1 - cy);
                        d % 2 == phase
                    })
                    .collect(),
                "nested",
            )
        }
        7 => {
            let phase = rng.below(2) as usize;
            ((0..nf).map(|f| (cell(f).0 + cell(f).1 + f % pc) % 2 == phase).collect(), "checker")
        }
        8 => (base.unwrap().clone(), "same"),
        9 => (base.unwrap().iter().map(|b| !b).collect(), "complement"),
        10 => {
            // the other operand shifted by one cell: many coincident and touching edges
            let b = base.unwrap();
            let (sx, sy) = ([(1i64, 0i64), (0, 1), (1, 1), (-1, 0)])[rng.below(4) as usize];
            (
                (0..nf)
                    .map(|f| {
                        let (cx, cy) = cell(f);
                        let (nx, ny) = (cx as i64 - sx, cy as i64 - sy);
                        if nx < 0 || ny < 0 || nx >= w as i64 || ny >= h as i64 {
                            false
                        } else {
                            b[(ny as usize * w + nx as usize) * pc + f % pc]
                        }
                    })
                    .collect(),
                "shifted",
            )
        }
        _ => {
            // subset / superset of the other operand
            let b = base.unwrap();
            let grow = rng.below(2) == 0;
            ((0..nf).map(|f| if grow { b[f] || rng.below(4) == 0 } else { b[f] && rng.below(4) != 0 }).collect(), "nested-in-other")
        }
    }
}

fn increasing(rng: &mut Rng, n: usize, style: u64) -> Vec<f64> {
    // strictly increasing coordinates for n+1 grid lines
    let mut v = Vec::with_capacity(n + 1);
    let mut cur: i64 = rng.range(-8, 8);
    for _ in 0..=n {
        v.push(cur);
        cur += match style {
            0 => 1,
            1 => rng.range(1, 3),
            _ => rng.range(1, 40),
        };
    }
    let scale = match style {
        3 => 0.25, // dyadic
        _ => 1.0,
    };
    if style == 4 {
        // integer lines spread over almost the whole range in which f32 still represents every integer
        let lim: i64 = 16_777_216;
        let mut set = std::collections::BTreeSet::new();
        set.insert(-lim + rng.range(0, 3));
        set.insert(lim - rng.range(0, 3));
        while set.len() < n + 1 {
            let c = match rng.below(3) {
                0 => rng.range(-lim, lim),
                1 => *set.iter().nth(rng.below(set.len() as u64) as usize).unwrap() + rng.range(-2, 2),
                _ => rng.range(-40, 40),
            };
            if c.abs() <= lim {
                set.insert(c);
            }
        }
        return set.into_iter().map(|c| c as f64).collect();
    }
    v.into_iter().map(|c| c as f64 * scale).collect()
}

fn far_offset(rng: &mut Rng, max_exp: i64) -> (f64, f64) {
    if rng.below(8) != 0 {
        return (0.0, 0.0);
    }
    let sgn = |rng: &mut Rng| if rng.below(2) == 0 { 1.0 } else { -1.0 };
    (sgn(rng) * (2.0f64).powi(rng.range(30, max_exp) as i32), sgn(rng) * (2.0f64).powi(rng.range(30, max_exp) as i32))
}

/// D1: axis-parallel regions on a non-uniform integer (or dyadic) grid.
pub fn gen_rect(rng: &mut Rng, max_dim: usize) -> Case {
    let w = rng.range(1, max_dim as i64) as usize;
    let h = rng.range(1, max_dim as i64) as usize;
    let t = Tess::grid(w, h);
    let (mut sa, mut ka) = select(rng, &t, None);
    let (mut sb, mut kb) = select(rng, &t, Some(&sa));
    if w >= 2 && rng.below(8) == 0 {
        // A left of a grid line, B right of it: bounding boxes that merely touch (or are disjoint)
        let k = rng.range(1, w as i64 - 1) as usize;
        for f in 0..t.faces.len() {
            let col = f % w;
            if col >= k {
                sa[f] = false;
            } else {
                sb[f] = false;
            }
        }
        if rng.below(2) == 0 {
            std::mem::swap(&mut sa, &mut sb);
        }
        ka = "split-left";
        kb = "split-right";
    }
    let style = if rng.below(10) == 0 { 4 } else { rng.below(4) };
    let xs = increasing(rng, w, style);
    let ys = increasing(rng, h, style);
    let merge_a = rng.below(4) != 0;
    let merge_b = rng.below(4) != 0;
    // now and then far from the origin (offsets 2^30..2^50 keep integer / dyadic coordinates exactly representable and
    // all of the library's arithmetic exact): small shapes with huge absolute coordinates
    let (mut fx, mut fy) = if style == 4 { (0.0, 0.0) } else { far_offset(rng, if style == 3 { 44 } else { 50 }) };
    // or (integer grids only) close to the largest integers that f32 still represents exactly: all coordinates stay
    // exact in f32 (|x| < 2^24) while sums of box extents do not
    let mut near_f32_limit = false;
    if fx == 0.0 && style != 3 && style != 4 && rng.below(8) == 0 {
        let sgn = |rng: &mut Rng| if rng.below(2) == 0 { 1.0 } else { -1.0 };
        let span = xs[w] - xs[0] + 16.0;
        let spany = ys[h] - ys[0] + 16.0;
        fx = sgn(rng) * (16_777_216.0 - span - rng.below(4_000_000) as f64);
        fy = sgn(rng) * (16_777_216.0 - spany - rng.below(4_000_000) as f64);
        fx -= xs[0].min(0.0) + if fx > 0.0 { xs[w].max(0.0) } else { 0.0 };
        fy -= ys[0].min(0.0) + if fy > 0.0 { ys[h].max(0.0) } else { 0.0 };
        near_f32_limit = true;
    }
    let map = |p: P| -> Pt { (xs[p.0 as usize] + fx, ys[p.1 as usize] + fy) };
    let a = t.to_mp(&sa, merge_a, &map);
    let b = t.to_mp(&sb, merge_b, &map);
    if near_f32_limit && rings(&a).chain(rings(&b)).flatten().any(|q| q.0.abs() > 16_777_216.0 || q.1.abs() > 16_777_216.0 || (q.0 as f32 as f64) != q.0 || (q.1 as f32 as f64) != q.1) {
        near_f32_limit = false;
    }
    let faces = (0..t.faces.len()).map(|f| (t.centroid(f, &map), sa[f], sb[f])).collect();
    Case {
        family: "D1-rect",
        desc: format!("{}x{} grid a={} b={} merge=({},{}) style={} offset=({:e},{:e})", w, h, ka, kb, merge_a, merge_b, style, fx, fy),
        a,
        b,
        exact: true,
        // style 4 spreads unit-sized features over the whole +-2^24 range: in f32 they are at the resolution limit
        // (far below the f32 tolerance), so that family runs in f64 only
        exact_f32: (fx == 0.0 || near_f32_limit) && style != 4,
        integer: style != 3,
        f32_ok: (fx == 0.0 || near_f32_limit) && style != 4,
        self_crossing: false,
        faces,
    }
}

/// D2: regions on the octilinear "union jack" lattice (closed under the operations, all intersection
/// points are lattice points).
pub fn gen_lattice(rng: &mut Rng, max_dim: usize) -> Case {
    let w = rng.range(1, max_dim as i64) as usize;
    let h = rng.range(1, max_dim as i64) as usize;
    let t = Tess::union_jack(w, h);
    let (sa, ka) = select(rng, &t, None);
    let (sb, kb) = select(rng, &t, Some(&sa));
    let merge_a = rng.below(4) != 0;
    let merge_b = rng.below(4) != 0;
    // isotropic power-of-two scale and integer offset keep the lattice property
    let k = [1.0, 1.0, 2.0, 0.5, 16.0][rng.below(5) as usize];
    let (fx, fy) = far_offset(rng, if k >= 1.0 { 50 } else { 44 });
    let (ox, oy) = (rng.range(-6, 6) as f64 + fx, rng.range(-6, 6) as f64 + fy);
    let map = |p: P| -> Pt { (p.0 as f64 * k + ox, p.1 as f64 * k + oy) };
    let a = t.to_mp(&sa, merge_a, &map);
    let b = t.to_mp(&sb, merge_b, &map);
    let faces = (0..t.faces.len()).map(|f| (t.centroid(f, &map), sa[f], sb[f])).collect();
    Case {
        family: "D2-lattice",
        desc: format!("{}x{} union-jack a={} b={} merge=({},{}) k={} offset=({:e},{:e})", w, h, ka, kb, merge_a, merge_b, k, fx, fy),
        a,
        b,
        exact: true,
        exact_f32: fx == 0.0,
        integer: k >= 1.0,
        f32_ok: fx == 0.0,
        self_crossing: false,
        faces,
    }
}

fn round_f32(v: f64) -> f64 {
    v as f32 as f64
}

/// D4: both operands are unions of triangles of one jittered, affinely distorted triangulation; shared
/// vertices are bit-identical, shared edges identical, no collinear merging (so no T-junctions).
pub fn gen_tri(rng: &mut Rng, max_dim: usize, f32_ok: bool) -> Case {
    let w = rng.range(1, max_dim as i64) as usize;
    let h = rng.range(1, max_dim as i64) as usize;
    let t = Tess::tri_grid(rng, w, h);
    let (sa, ka) = select(rng, &t, None);
    let (sb, kb) = select(rng, &t, Some(&sa));
    let scale = [1.0, 1e-3, 1e6, 0.37, 123.456][rng.below(5) as usize];
    let (shx, shy) = (rng.unit() * 0.6 - 0.3, rng.unit() * 0.6 - 0.3);
    let mut jit: HashMap<P, Pt> = HashMap::new();
    for y in 0..=h as i64 {
        for x in 0..=w as i64 {
            let jx = (rng.unit() * 2.0 - 1.0) * 0.2;
            let jy = (rng.unit() * 2.0 - 1.0) * 0.2;
            let (fx, fy) = (x as f64 + jx, y as f64 + jy);
            let mut p = ((fx + shx * fy) * scale * 1.2345678, (fy + shy * fx) * scale * 0.87654321);
            if f32_ok {
                p = (round_f32(p.0), round_f32(p.1));
            }
            jit.insert((x, y), p);
        }
    }
    let map = |p: P| -> Pt { jit[&p] };
    let a = t.to_mp(&sa, false, &map);
    let b = t.to_mp(&sb, false, &map);
    let faces = (0..t.faces.len()).map(|f| (t.centroid(f, &map), sa[f], sb[f])).collect();
    Case {
        family: "D4-tri",
        desc: format!("{}x{} jittered triangulation a={} b={} scale={}", w, h, ka, kb, scale),
        a,
        b,
        exact: false,
        exact_f32: false,
        integer: false,
        f32_ok,
        self_crossing: false,
        faces,
    }
}

/// D3-overlay: the operands come from two *independent* jittered triangulations, the second rotated and shifted against
/// the first, so their edges cross transversally in many places and the operands have many parts, holes and pinch
/// vertices with floating-point coordinates. Truth comes from the even-odd oracle on the operands (no construction
/// truth across two tessellations). Returns None (counted) when the general-position filter rejects the draw.
pub fn gen_overlay(rng: &mut Rng, max_dim: usize, f32_ok: bool) -> Option<Case> {
    let scale = [1.0, 1e-3, 1e6, 0.37, 123.456][rng.below(5) as usize];
    let one = |rng: &mut Rng, rotate: bool| -> (MP, String) {
        let w = rng.range(1, max_dim as i64) as usize;
        let h = rng.range(1, max_dim as i64) as usize;
        let t = Tess::tri_grid(rng, w, h);
        let (sel, kind) = select(rng, &t, None);
        let (theta, tx, ty, zoom) = if rotate { (rng.unit() * std::f64::consts::TAU, rng.unit() * 2.0 - 1.0, rng.unit() * 2.0 - 1.0, 0.6 + rng.unit() * 0.9) } else { (0.0, 0.0, 0.0, 1.0) };
        let (cx, cy) = (w as f64 / 2.0, h as f64 / 2.0);
        let mut jit: HashMap<P, Pt> = HashMap::new();
        for y in 0..=h as i64 {
            for x in 0..=w as i64 {
                let jx = (rng.unit() * 2.0 - 1.0) * 0.2;
                let jy = (rng.unit() * 2.0 - 1.0) * 0.2;
                let (fx, fy) = ((x as f64 + jx - cx) * zoom, (y as f64 + jy - cy) * zoom);
                let (rx, ry) = (fx * theta.cos() - fy * theta.sin() + tx, fx * theta.sin() + fy * theta.cos() + ty);
                let mut p = (rx * scale * 1.2345678, ry * scale * 1.2345678);
                if f32_ok {
                    p = (round_f32(p.0), round_f32(p.1));
                }
                jit.insert((x, y), p);
            }
        }
        let map = |p: P| -> Pt { jit[&p] };
        (t.to_mp(&sel, false, &map), format!("{}x{} {}", w, h, kind))
    };
    let (a, da) = one(rng, false);
    let (b, db) = one(rng, true);
    if a.is_empty() || b.is_empty() {
        return None;
    }
    let extent = max_abs_coord(&[&a, &b]);
    if !general_position(&a, &b, 1e-5 * extent, 0.05, false) {
        return None;
    }
    if n2_hazard(&a, &b, false) {
        return None;
    }
    let f32_ok = f32_ok && !n2_hazard(&a, &b, true);
    Some(Case {
        family: "D3-overlay",
        desc: format!("two independent jittered triangulations overlaid: a={} b={} scale={}", da, db, scale),
        a,
        b,
        exact: false,
        exact_f32: false,
        integer: false,
        f32_ok,
        self_crossing: false,
        faces: vec![],
    })
}

pub fn gen_overlay_retry(rng: &mut Rng, max_dim: usize, f32_ok: bool, rejected: &mut u64) -> Case {
    loop {
        if let Some(c) = gen_overlay(rng, max_dim, f32_ok) {
            return c;
        }
        *rejected += 1;
    }
}

fn star(rng: &mut Rng, cx: f64, cy: f64, rmax: f64, n: usize, snap: f64, f32_ok: bool) -> Ring {
    let mut pts: Vec<Pt> = Vec::new();
    for i in 0..n {
        let phi = (i as f64 + rng.unit() * 0.8) / (n as f64) * std::f64::consts::TAU;
        let r = rmax * (0.2 + 0.8 * rng.unit());
        let (mut x, mut y) = (cx + r * phi.cos(), cy + r * phi.sin());
        if snap > 0.0 {
            x = (x / snap).round() * snap;
            y = (y / snap).round() * snap;
        }
        if f32_ok {
            x = round_f32(x);
            y = round_f32(y);
        }
        pts.push((x, y));
    }
    pts.dedup();
    let f = pts[0];
    pts.push(f);
    pts
}

fn polyline(rng: &mut Rng, cx: f64, cy: f64, rmax: f64, n: usize, snap: f64, f32_ok: bool) -> Ring {
    let mut pts: Vec<Pt> = Vec::new();
    for _ in 0..n {
        let (mut x, mut y) = (cx + rmax * (rng.unit() * 2.0 - 1.0), cy + rmax * (rng.unit() * 2.0 - 1.0));
        if snap > 0.0 {
            x = (x / snap).round() * snap;
            y = (y / snap).round() * snap;
        }
        if f32_ok {
            x = round_f32(x);
            y = round_f32(y);
        }
        pts.push((x, y));
    }
    pts.dedup();
    let f = pts[0];
    pts.push(f);
    pts
}

/// All pairs of distinct edges are disjoint, properly crossing, or meet at a common vertex (or are
/// identical across operands if `allow_identical`); no two crossings closer than `sep`; crossing
/// angle at least `min_angle`; no vertex closer than `sep` to a non-incident edge.
/// Within one ring of a non-self-crossing operand, edges may only meet at shared ring vertices.
pub fn general_position(a: &MP, b: &MP, sep: f64, min_sin: f64, self_crossing: bool) -> bool {
    let mut all: Vec<(Seg, bool)> = Vec::new();
    for s in segs_of(a) {
        all.push((s, true));
    }
    for s in segs_of(b) {
        all.push((s, false));
    }
    let mut crossings: Vec<Pt> = Vec::new();
    for i in 0..all.len() {
        for j in i + 1..all.len() {
            let (s, t) = (all[i].0, all[j].0);
            match seg_rel(s, t) {
                Rel::Disjoint => {
                    // vertex/edge clearance
                    for (p, e) in [(s.0, t), (s.1, t), (t.0, s), (t.1, s)] {
                        if dist_pt_seg(p, e) < sep {
                            return false;
                        }
                    }
                }
                Rel::SharedVertex => {
                    // the two non-shared endpoints must be clear of the other edge; angle not tiny
                    let shared = if s.0 == t.0 || s.0 == t.1 { s.0 } else { s.1 };
                    let ps = if s.0 == shared { s.1 } else { s.0 };
                    let pt = if t.0 == shared { t.1 } else { t.0 };
                    if dist_pt_seg(ps, t) < sep || dist_pt_seg(pt, s) < sep {
                        return false;
                    }
                    if all[i].1 != all[j].1 {
                        // a vertex shared between the operands is outside "general position"
                        return false;
                    }
                }
                Rel::Cross => {
                    if all[i].1 == all[j].1 && !self_crossing {
                        return false;
                    }
                    let (ux, uy) = (s.1 .0 - s.0 .0, s.1 .1 - s.0 .1);
                    let (vx, vy) = (t.1 .0 - t.0 .0, t.1 .1 - t.0 .1);
                    let sin = (ux * vy - uy * vx).abs() / ((ux * ux + uy * uy).sqrt() * (vx * vx + vy * vy).sqrt());
                    if sin < min_sin {
                        return false;
                    }
                    let p = line_x(s, t).unwrap();
                    for e in [s.0, s.1, t.0, t.1] {
                        if ((e.0 - p.0).powi(2) + (e.1 - p.1).powi(2)).sqrt() < sep {
                            return false;
                        }
                    }
                    crossings.push(p);
                }
                Rel::Tee | Rel::Overlap | Rel::Identical => return false,
            }
        }
    }
    for i in 0..crossings.len() {
        for j in i + 1..crossings.len() {
            let (p, q) = (crossings[i], crossings[j]);
            if ((p.0 - q.0).powi(2) + (p.1 - q.1).powi(2)).sqrt() < sep {
                return false;
            }
        }
    }
    // crossings must also be clear of third edges
    for p in &crossings {
        let mut near = 0;
        for (s, _) in &all {
            if dist_pt_seg(*p, *s) < sep {
                near += 1;
            }
        }
        if near > 2 {
            return false;
        }
    }
    true
}

fn ulp_of(v: f64, f32_prec: bool) -> f64 {
    let a = v.abs().max(f64::MIN_POSITIVE);
    let e = a.log2().floor() as i32;
    (2.0f64).powi(e - if f32_prec { 23 } else { 52 })
}

/// Input-defined trigger of the recorded finding N2 (one-ulp division bump, which can end in the runaway sweep N3): a
/// crossing point whose abscissa is, at the working precision, indistinguishable from the abscissa of the left endpoint
/// of one of the two crossing segments while lying below that endpoint (a steep segment crossed close to its start).
pub fn n2_hazard(a: &MP, b: &MP, f32_prec: bool) -> bool {
    let mut all: Vec<Seg> = segs_of(a);
    all.extend(segs_of(b));
    for i in 0..all.len() {
        for j in i + 1..all.len() {
            let (s, t) = (norm_seg(all[i]), norm_seg(all[j]));
            if s.1 .0 < t.0 .0 || t.1 .0 < s.0 .0 {
                continue;
            }
            if seg_rel(s, t) != Rel::Cross {
                continue;
            }
            if let Some(p) = line_x(s, t) {
                for seg in [s, t] {
                    let l = seg.0;
                    let u = ulp_of(l.0.abs().max(p.0.abs()), f32_prec);
                    if (p.0 - l.0).abs() <= 16.0 * u && p.1 < l.1 {
                        return true;
                    }
                }
            }
        }
    }
    false
}

/// D3 / D5: one or more star polygons (or self-crossing polylines) per operand in general position.
/// `snap` = 0 gives random doubles (D3), `snap` = 1 integer coordinates (D5).
/// Returns None (to be counted) if the rejection filter does not accept the draw.
pub fn gen_general(rng: &mut Rng, max_vertices: usize, snap: f64, f32_ok: bool, self_crossing: bool) -> Option<Case> {
    let rmax = if snap > 0.0 { [12.0, 40.0, 1000.0, 2.0e7][rng.below(4) as usize] } else { [10.0, 1e-3, 1e5, 1.0][rng.below(4) as usize] };
    let (cx, cy) = if snap > 0.0 { (0.0, 0.0) } else { (rmax * (rng.unit() - 0.5) * 4.0, rmax * (rng.unit() - 0.5) * 4.0) };
    let parts_a = if self_crossing { 1 } else { rng.range(1, 3) as usize };
    let parts_b = if self_crossing { 1 } else { rng.range(1, 3) as usize };
    let mk = |rng: &mut Rng, ox: f64, oy: f64, r: f64| -> Ring {
        let n = rng.range(3, max_vertices as i64) as usize;
        if self_crossing {
            polyline(rng, ox, oy, r, n.min(9), snap, f32_ok)
        } else {
            star(rng, ox, oy, r, n, snap, f32_ok)
        }
    };
    let build = |rng: &mut Rng, parts: usize| -> MP {
        let mut mp = Vec::new();
        if parts == 1 {
            let (ox, oy) = (cx + rmax * (rng.unit() - 0.5), cy + rmax * (rng.unit() - 0.5));
            mp.push(vec![mk(rng, ox, oy, rmax)]);
            // optional hole: a small star around the centre, reversed
            if !self_crossing && rng.below(3) == 0 {
                let hn = rng.range(3, 6) as usize;
                let mut hole = star(rng, ox, oy, rmax * 0.15, hn, snap, f32_ok);
                hole.reverse();
                mp[0].push(hole);
            }
        } else {
            // several parts around the centre (disjointness is verified by the filter below)
            let phase = rng.unit() * std::f64::consts::TAU;
            let d = rmax * 1.4;
            for k in 0..parts {
                let ang = phase + k as f64 / parts as f64 * std::f64::consts::TAU;
                let (ox, oy) = (cx + d * ang.cos() + rmax * 0.2 * (rng.unit() - 0.5), cy + d * ang.sin() + rmax * 0.2 * (rng.unit() - 0.5));
                mp.push(vec![mk(rng, ox, oy, rmax)]);
            }
        }
        mp
    };
    let a = build(rng, parts_a);
    let b = build(rng, parts_b);
    for mp in [&a, &b] {
        for r in rings(mp) {
            if open_ring(r).len() < 3 {
                return None;
            }
        }
    }
    let scale = max_abs_coord(&[&a, &b]);
    let sep = if snap > 0.0 { 1e-4 * rmax.min(1e3) } else { 1e-5 * scale };
    // validity of each operand on its own (simple rings, parts and holes disjoint): every pair of edges of
    // one operand must be disjoint or adjacent; the general-position filter enforces it (it rejects
    // same-operand crossings unless self_crossing) together with the separation conditions.
    if !general_position(&a, &b, sep, 0.05, self_crossing) {
        return None;
    }
    if !self_crossing {
        // hole inside its exterior and parts not nested is guaranteed by construction + no crossings:
        // verify by the oracle anyway (hole vertex inside exterior).
        for mp in [&a, &b] {
            for p in mp {
                for hring in &p[1..] {
                    if !in_ring(&p[0], hring[0].0, hring[0].1) {
                        return None;
                    }
                }
            }
            for i in 0..mp.len() {
                for j in 0..mp.len() {
                    if i != j && in_ring(&mp[i][0], mp[j][0][0].0, mp[j][0][0].1) {
                        return None;
                    }
                }
            }
        }
    }
    // outside the robust domain: inputs that trigger the recorded finding N2 at double precision are rejected;
    // inputs that trigger it only at single precision are not run in f32
    if n2_hazard(&a, &b, false) {
        return None;
    }
    let f32_ok = f32_ok && !n2_hazard(&a, &b, true);
    let f32_snap_ok = snap >= 1.0 && rmax < 1.0e6 && !n2_hazard(&a, &b, true);
    Some(Case {
        family: if snap > 0.0 { "D5-int" } else { "D3-float" },
        desc: format!("general position rmax={} parts=({},{}) self_crossing={} f32_ok={}", rmax, parts_a, parts_b, self_crossing, f32_ok),
        a,
        b,
        exact: false,
        exact_f32: false,
        integer: snap >= 1.0,
        f32_ok: f32_ok || f32_snap_ok,
        self_crossing,
        faces: vec![],
    })
}

/// Draw from a family until the filter accepts; counts rejections.
pub fn gen_general_retry(rng: &mut Rng, max_vertices: usize, snap: f64, f32_ok: bool, self_crossing: bool, rejected: &mut u64) -> Case {
    loop {
        if let Some(c) = gen_general(rng, max_vertices, snap, f32_ok, self_crossing) {
            return c;
        }
        *rejected += 1;
    }
}

/// Generator self-test: the traced multipolygons must agree with the face selection at every face
/// centroid (read structurally, by even-odd, and with cover count <= 1). A failure is a harness
/// error, never a violation of the library.
pub fn self_test(case: &Case) -> Result<(), String> {
    for &(c, ia, ib) in &case.faces {
        for (mp, truth, name) in [(&case.a, ia, "A"), (&case.b, ib, "B")] {
            if in_mp(mp, c.0, c.1) != truth || in_evenodd(mp, c.0, c.1) != truth || cover_count(mp, c.0, c.1) > 1 {
                return Err(format!("generator self-test failed for operand {} at {:?} ({})", name, c, case.desc));
            }
        }
    }
    Ok(())
}

/// D6: long polygons whose facing edges cross at a very shallow angle (slopes +m/k and -m'/k, k = 2^j, j up to 28) with
/// every coordinate, every intersection point and every intermediate product of the library's intersection arithmetic
/// of the *first* cut exactly representable (k a power of two, m + m' in {2, 4}, offsets multiples of 16). Later cuts
/// act on sub-segments whose lengths are no powers of two, so the family is held to a (tight, family-specific)
/// tolerance rather than to exact equality; the crossing angle is far below anything the other float families contain. Random axis
/// symmetries / transposition (near-vertical shallow crossings) and an exact translation are applied.
/// When every input coordinate is representable in f32 (j <= 14: beyond that the crossing points fall within f32 rounding distance of input vertices, which is outside the robust domain) the case is also run in f32.
pub fn gen_shallow(rng: &mut Rng) -> Case {
    gen_shallow_upto(rng, 28)
}

/// as `gen_shallow` with k = 2^j, j <= max_j
pub fn gen_shallow_upto(rng: &mut Rng, max_j: i64) -> Case {
    loop {
        let c = gen_shallow_once(rng, max_j);
        // the input-side trigger of the recorded findings N2 / N3 (a crossing within ulps of a left endpoint's abscissa)
        // is outside the robust domain for this family as for the others
        if !n2_hazard(&c.a, &c.b, false) {
            return c;
        }
    }
}

fn gen_shallow_once(rng: &mut Rng, max_j: i64) -> Case {
    let j = rng.range(2, max_j);
    let k = (2.0f64).powi(j as i32);
    let (m, m2) = [(1.0, 1.0), (1.0, 3.0), (3.0, 1.0), (2.0, 2.0)][rng.below(4) as usize];
    let c = rng.range(1, 4) as f64; // height of the clipping's top edge at its left end
    let x0 = 16.0 * rng.range(1, 4) as f64;
    // fat bodies so that most faces are wide compared with the witness clearance; only the wedge between the two
    // shallow edges is thin
    let big = if j >= 6 { (2.0f64).powi((j - 3) as i32) } else { 8.0 };
    let h = if rng.below(2) == 0 { 5.0 + rng.range(0, 3) as f64 } else { big };
    let d = if rng.below(2) == 0 { 4.0 } else { big };
    // subject: bottom edge y = m x / k from (0,0) to (k,m); clipping: top edge from (x0,c) to (k+x0, c-m2)
    let mut a: Ring = vec![(0.0, 0.0), (k, m), (k, m + h), (0.0, m + h)];
    let mut b: Ring = vec![(x0, -d), (k + x0, -d), (k + x0, c - m2), (x0, c)];
    if rng.below(3) == 0 {
        // slanted top for the subject as well (parallel to its bottom): two shallow crossings with the clipping's
        // vertical sides
        a = vec![(0.0, 0.0), (k, m), (k, m + h), (0.0, h)];
    }
    if rng.below(4) == 0 {
        // a second shallow edge pair: clipping bottom slanted the other way
        b[0] = (x0, -d);
        b[1] = (k + x0, -d - m2);
    }
    let sym = rng.below(8);
    let (tx, ty) = if rng.below(2) == 0 { (0.0, 0.0) } else { (16.0 * rng.range(-64, 64) as f64, 16.0 * rng.range(-64, 64) as f64) };
    let map = |p: Pt| -> Pt {
        let (mut x, mut y) = p;
        if sym & 1 != 0 {
            x = -x;
        }
        if sym & 2 != 0 {
            y = -y;
        }
        if sym & 4 != 0 {
            std::mem::swap(&mut x, &mut y);
        }
        (x + tx, y + ty)
    };
    let fix = |r: &Ring| -> Ring {
        let mut v: Ring = r.iter().map(|p| map(*p)).collect();
        if ring_area2(&v) < 0.0 {
            v.reverse();
        }
        let first = v[0];
        v.push(first);
        v
    };
    let (ra, rb) = (fix(&a), fix(&b));
    let swap = rng.below(2) == 0;
    let (pa, pb): (MP, MP) = if swap { (vec![vec![rb]], vec![vec![ra]]) } else { (vec![vec![ra]], vec![vec![rb]]) };
    let f32_exact = j <= 14 && rings(&pa).chain(rings(&pb)).all(|r| r.iter().all(|p| round_f32(p.0) == p.0 && round_f32(p.1) == p.1)) && !n2_hazard(&pa, &pb, true);
    Case {
        family: "D6-shallow",
        desc: format!("shallow exact crossing k=2^{} slopes=({}/k,-{}/k) c={} x0={} sym={} shift=({},{})", j, m, m2, c, x0, sym, tx, ty),
        a: pa,
        b: pb,
        exact: false,
        exact_f32: false,
        integer: false,
        f32_ok: f32_exact,
        self_crossing: false,
        faces: vec![],
    }
}

/// D7: a "needle" - a valid triangle whose two long edges leave one vertex in almost the same direction (integer
/// coordinates up to 2^27, exact doubled area 1..3, so that naive floating-point cross products of the two directions
/// cancel while the exact orientation does not) - plus ordinary small shapes of both operands inside the needle's
/// bounding box that do not touch the needle. Nothing crosses the needle (crossings near its tip would fall within
/// rounding distance of both long edges, which is the recorded non-robustness N1), so all arithmetic is exact; what is
/// exercised is the ordering of the two nearly collinear edges at the tip and of everything that is compared with them.
pub fn gen_needle(rng: &mut Rng) -> Case {
    let a = (2.0f64).powi(rng.range(10, 27) as i32) + rng.range(-3, 3) as f64;
    let k = rng.range(1, 3) as f64;
    // tip at the origin, long edges to (a, a-k) and (a+1, a-k+1): doubled area = a*(a-k+1) - (a-k)*(a+1) = k
    let needle: Vec<Pt> = vec![(0.0, 0.0), (a, a - k), (a + 1.0, a - k + 1.0)];
    let sym = rng.below(8);
    let (tx, ty) = (rng.range(-1000, 1000) as f64, rng.range(-1000, 1000) as f64);
    let map = |p: Pt| -> Pt {
        let (mut x, mut y) = p;
        if sym & 1 != 0 {
            x = -x;
        }
        if sym & 2 != 0 {
            y = -y;
        }
        if sym & 4 != 0 {
            std::mem::swap(&mut x, &mut y);
        }
        (x + tx, y + ty)
    };
    let fix = |r: &Vec<Pt>| -> Ring {
        let mut v: Ring = r.iter().map(|p| map(*p)).collect();
        if ring_area2(&v) < 0.0 {
            v.reverse();
        }
        // any vertex may come first
        let first = v[0];
        v.push(first);
        v
    };
    // small shapes at a distance from the needle line y = x (before the symmetry): centre (cx, cx + off) with |off| >= 64
    let small = |rng: &mut Rng| -> Vec<Pt> {
        let cx = (rng.unit() * a).floor();
        let off = rng.range(64, 4096) as f64 * if rng.below(2) == 0 { 1.0 } else { -1.0 };
        let (cy, h) = (cx + off, rng.range(1, 24) as f64);
        if rng.below(2) == 0 {
            vec![(cx - h, cy - h), (cx + h, cy - h), (cx + h, cy + h), (cx - h, cy + h)]
        } else {
            vec![(cx - h, cy - h), (cx + h, cy), (cx, cy + h)]
        }
    };
    let mut a_parts: MP = vec![vec![fix(&needle)]];
    let mut b_parts: MP = Vec::new();
    let nb = rng.range(1, 3);
    let mut placed: Vec<(f64, f64, f64)> = Vec::new();
    let place = |rng: &mut Rng, into: &mut MP, placed: &mut Vec<(f64, f64, f64)>| {
        for _ in 0..8 {
            let s = small(rng);
            let (cx, cy) = (s.iter().map(|p| p.0).sum::<f64>() / s.len() as f64, s.iter().map(|p| p.1).sum::<f64>() / s.len() as f64);
            if placed.iter().all(|q| (q.0 - cx).abs() > 64.0 || (q.1 - cy).abs() > 64.0) {
                placed.push((cx, cy, 0.0));
                into.push(vec![fix(&s)]);
                return;
            }
        }
    };
    for _ in 0..nb {
        place(rng, &mut b_parts, &mut placed);
    }
    if rng.below(2) == 0 {
        place(rng, &mut a_parts, &mut placed);
    }
    if b_parts.is_empty() {
        b_parts.push(vec![fix(&vec![(8.0, 200.0), (12.0, 200.0), (12.0, 204.0), (8.0, 204.0)])]);
    }
    let swap = rng.below(2) == 0;
    let (pa, pb) = if swap { (b_parts, a_parts) } else { (a_parts, b_parts) };
    Case {
        family: "D7-needle",
        desc: format!("needle of length ~{} with doubled area {} (sym {}) and small shapes beside it", a, k, sym),
        a: pa,
        b: pb,
        exact: true,
        exact_f32: false,
        integer: true,
        f32_ok: false,
        self_crossing: false,
        faces: vec![],
    }
}

/// The whole case multiplied by 2^k (exact: only exponents change). Exact families stay exact; the integer reference and
/// the f32 run are switched off (f32 products would leave the exponent range).
pub fn scaled_by_pow2(mut c: Case, k: i32) -> Case {
    let f = (2.0f64).powi(k);
    let m = |p: Pt| -> Pt { (p.0 * f, p.1 * f) };
    c.a = map_mp(&c.a, &m);
    c.b = map_mp(&c.b, &m);
    for fc in c.faces.iter_mut() {
        fc.0 = m(fc.0);
    }
    c.integer = false;
    c.f32_ok = false;
    c.exact_f32 = false;
    c.desc = format!("{} scaled by 2^{}", c.desc, k);
    c
}

/// The mixed family stream used by most whole-operation properties.
pub fn gen_mixed(rng: &mut Rng, size: usize, rejected: &mut u64) -> Case {
    gen_mixed_unscaled(rng, size, rejected)
}

/// As `gen_mixed`, but one case in twelve is moved to a very small or very large magnitude by an exact power-of-two
/// scaling (anything absolute in the library - an epsilon, a fixed sentinel - shows up there). Only for monitors whose
/// oracles are scale-free (direct region / structure / provenance / subdivision / classification checks).
pub fn gen_mixed_scaled(rng: &mut Rng, size: usize, rejected: &mut u64) -> Case {
    let c = gen_mixed_unscaled(rng, size, rejected);
    // (needles stay at integer coordinates: their areas are only exact in integer arithmetic)
    if rng.below(12) == 0 && c.family != "D7-needle" {
        // downwards to 2^-200 (below that squared cross products underflow), upwards to 2^400 (they overflow to +inf,
        // which the library only tests for being positive)
        let k = if rng.below(3) == 0 { rng.range(40, 400) as i32 } else { -(rng.range(40, 200) as i32) };
        scaled_by_pow2(c, k)
    } else {
        c
    }
}

fn gen_mixed_unscaled(rng: &mut Rng, size: usize, rejected: &mut u64) -> Case {
    // size: 1 = quick, larger = thorough
    let (grid, lat, tri, star_n) = match size {
        0 => (4, 3, 3, 8),
        1 => (7, 4, 5, 12),
        _ => (12, 7, 8, 28),
    };
    match rng.below(19) {
        18 => gen_needle(rng),
        16 => gen_shallow(rng),
        17 => {
            let f = rng.below(2) == 0;
            gen_overlay_retry(rng, tri, f, rejected)
        }
        0..=4 => gen_rect(rng, grid),
        5..=9 => gen_lattice(rng, lat),
        10..=11 => {
            let f = rng.below(2) == 0;
            gen_tri(rng, tri, f)
        }
        12 => {
            let f = rng.below(2) == 0;
            gen_general_retry(rng, star_n, 0.0, f, false, rejected)
        }
        13 => gen_general_retry(rng, star_n, 1.0, false, false, rejected),
        14 => gen_general_retry(rng, star_n, 0.0, false, true, rejected),
        _ => gen_general_retry(rng, star_n, 1.0, false, true, rejected),
    }
}

/// Exact-arithmetic families only (D1, D2).
pub fn gen_exact(rng: &mut Rng, size: usize) -> Case {
    let (grid, lat) = match size {
        0 => (4, 3),
        1 => (7, 4),
        _ => (12, 7),
    };
    if rng.below(2) == 0 {
        gen_rect(rng, grid)
    } else {
        gen_lattice(rng, lat)
    }
}

// ------------------------------------------------------------------------------------------
// constructed stress / hostile inputs

pub fn rect_ring(x0: f64, y0: f64, x1: f64, y1: f64) -> Ring {
    vec![(x0, y0), (x1, y0), (x1, y1), (x0, y1), (x0, y0)]
}

/// n long thin rectangles stacked vertically against a small box on their left end: an
/// intersection/difference stops early with all 2n long edges in the status structure.
pub fn comb(n: usize) -> (MP, MP) {
    let a: MP = (0..n).map(|i| vec![rect_ring(0.0, i as f64, 100.0, i as f64 + 0.5)]).collect();
    let b: MP = vec![vec![rect_ring(-1.0, -1.0, 1.0, n as f64 / 2.0)]];
    (a, b)
}

/// the same comb against a box over its upper left corner only: the box's segments sit at the top of the status
/// structure, so no lookup ever walks down the chain that bottom-to-top insertion of the comb builds (a lookup near
/// the bottom would halve its depth); at the early stop the status structure is a chain of 2n segments
pub fn comb_corner(n: usize) -> (MP, MP) {
    let a: MP = (0..n).map(|i| vec![rect_ring(0.0, i as f64, 100.0, i as f64 + 0.5)]).collect();
    let top = n as f64;
    let b: MP = vec![vec![rect_ring(-1.0, top - 0.75, 1.0, top + 1.0)]];
    (a, b)
}

/// a "staircase": thin rectangles stacked vertically, the higher the further left they start, against a small box near
/// the top: segments enter the status structure from the top down, so the chain leans the other way
pub fn staircase(n: usize) -> (MP, MP) {
    let step = 1.0 / 1024.0;
    let a: MP = (0..n).map(|i| vec![rect_ring(-(i as f64) * step, i as f64, 100.0, i as f64 + 0.5)]).collect();
    let top = n as f64;
    let left = -(n as f64) * step;
    let b: MP = vec![vec![rect_ring(left - 2.0, top - 0.75, 101.0 - 99.5, top + 1.0)]];
    (a, b)
}

/// k nested square rings alternating between the operands
pub fn nested_squares(k: usize) -> (MP, MP) {
    let mut a: MP = Vec::new();
    let mut b: MP = Vec::new();
    for i in 0..k {
        let (lo, hi) = (i as f64 * 2.0, (4 * k - 2 * i) as f64);
        let (lo2, hi2) = (lo + 1.0, hi - 1.0);
        let mut hole = rect_ring(lo2, lo2, hi2, hi2);
        hole.reverse();
        let poly = vec![rect_ring(lo, lo, hi, hi), hole];
        if i % 2 == 0 {
            a.push(poly)
        } else {
            b.push(poly)
        }
    }
    (a, b)
}

/// k triangles sharing the vertex (0,0) in each operand, interleaved by angle
pub fn star_through_vertex(k: usize) -> (MP, MP) {
    let mut a: MP = Vec::new();
    let mut b: MP = Vec::new();
    let dirs: Vec<(f64, f64)> = (0..2 * k).map(|i| {
        let x = 8.0 - (i as f64);
        (x, 16.0 - x.abs())
    }).collect();
    for i in 0..2 * k - 1 {
        let (p, q) = (dirs[i], dirs[i + 1]);
        let tri = vec![vec![(0.0, 0.0), p, q, (0.0, 0.0)]];
        if i % 2 == 0 {
            a.push(tri)
        } else {
            b.push(tri)
        }
    }
    (a, b)
}
