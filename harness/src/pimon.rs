//! C16: the public pairwise intersection step, checked against an exact classifier on fresh pairs.

use crate::geom::*;
use crate::iface::*;
use crate::sweepmon::{pt, Ev};
use crate::util::Rng;
use geo_booleanop::boolean::possible_intersection::possible_intersection;
use geo_booleanop::boolean::sweep_event::{EdgeType, SweepEvent};
use geo_booleanop::verif as hooks;
use geo_types::Coord;
use std::cmp::Ordering;
use std::collections::{BTreeMap, BinaryHeap};
use std::rc::{Rc, Weak};

#[derive(Clone, Debug)]
pub struct PairCase {
    pub s1: Seg,
    pub s2: Seg,
    pub subj1: bool,
    pub subj2: bool,
    pub in_out1: bool,
    pub in_out2: bool,
    pub f32_run: bool,
}

impl PairCase {
    pub fn to_json(&self) -> serde_json::Value {
        serde_json::json!({"s1": [crate::util::jpt(self.s1.0), crate::util::jpt(self.s1.1)], "s2": [crate::util::jpt(self.s2.0), crate::util::jpt(self.s2.1)],
            "subject1": self.subj1, "subject2": self.subj2, "in_out1": self.in_out1, "in_out2": self.in_out2, "float": if self.f32_run {"f32"} else {"f64"}})
    }
    pub fn from_json(v: &serde_json::Value) -> PairCase {
        let p = |v: &serde_json::Value| (crate::util::vf(&v[0]), crate::util::vf(&v[1]));
        PairCase {
            s1: (p(&v["s1"][0]), p(&v["s1"][1])),
            s2: (p(&v["s2"][0]), p(&v["s2"][1])),
            subj1: v["subject1"].as_bool().unwrap(),
            subj2: v["subject2"].as_bool().unwrap(),
            in_out1: v["in_out1"].as_bool().unwrap(),
            in_out2: v["in_out2"].as_bool().unwrap(),
            f32_run: v["float"] == "f32",
        }
    }
}

fn mk<F: Real>(s: Seg, subj: bool, in_out: bool, id: u32) -> (Ev<F>, Ev<F>) {
    let s = norm_seg(s);
    let c = |p: Pt| Coord { x: F::from64(p.0), y: F::from64(p.1) };
    let right = SweepEvent::new_rc(id as _, c(s.1), false, Weak::new(), subj, true);
    let left = SweepEvent::new_rc(id as _, c(s.0), true, Rc::downgrade(&right), subj, true);
    right.set_other_event(&left);
    left.set_in_out(in_out, false);
    (left, right)
}

/// what one call did to one of the two segments
#[derive(Debug, Clone, PartialEq)]
pub struct SegOutcome {
    /// division points in order from the left endpoint (0, 1 or 2)
    pub cuts: Vec<Pt>,
    pub edge_type: String,
}

#[derive(Debug, Clone, PartialEq)]
pub struct Outcome {
    pub rc: u8,
    pub a: SegOutcome,
    pub b: SegOutcome,
    pub queued: usize,
}

struct Live<F: Real> {
    l1: Ev<F>,
    r1: Ev<F>,
    l2: Ev<F>,
    r2: Ev<F>,
    queue: Vec<Ev<F>>,
}

/// follow the chain of pieces from the original left event to the original right event
fn chain<F: Real>(l: &Ev<F>, r: &Ev<F>, new_events: &[Ev<F>]) -> Result<Vec<Pt>, String> {
    let mut cuts = Vec::new();
    let mut cur = l.clone();
    for _ in 0..8 {
        let o = cur.get_other_event().ok_or("left event lost its partner")?;
        let back = o.get_other_event().map(|x| Rc::ptr_eq(&x, &cur)).unwrap_or(false);
        if !back {
            return Err(format!("partner of the piece starting at {:?} does not link back", pt(&cur)));
        }
        if cur.is_left() == o.is_left() {
            return Err(format!("piece {:?}-{:?}: both ends flagged {}", pt(&cur), pt(&o), if cur.is_left() { "left" } else { "right" }));
        }
        let (le, re) = if cur.is_left() { (&cur, &o) } else { (&o, &cur) };
        if (**le).cmp(&**re) != Ordering::Greater {
            return Err(format!("piece {:?}-{:?}: the event flagged left is not first in sweep order", pt(le), pt(re)));
        }
        if pt(&cur) == pt(&o) {
            return Err(format!("zero-length piece at {:?}", pt(&cur)));
        }
        if Rc::ptr_eq(&o, r) {
            return Ok(cuts);
        }
        cuts.push(pt(&o));
        // the next piece starts at the new event at the same point that is linked towards the right
        let next = new_events.iter().find(|e| !Rc::ptr_eq(e, &o) && pt(e) == pt(&o) && e.is_subject == l.is_subject && e.contour_id == l.contour_id && {
            // its partner must not be `cur`
            e.get_other_event().map(|x| !Rc::ptr_eq(&x, &cur)).unwrap_or(false)
        });
        cur = match next {
            Some(n) => n.clone(),
            None => return Err(format!("no continuation piece queued at division point {:?}", pt(&o))),
        };
    }
    Err("more than 8 pieces".into())
}

fn run_once<F: Real>(pc: &PairCase, swapped: bool) -> Result<(Outcome, Live<F>), String> {
    let (l1, r1) = mk::<F>(pc.s1, pc.subj1, pc.in_out1, 1);
    let (l2, r2) = mk::<F>(pc.s2, pc.subj2, pc.in_out2, 2);
    let mut q: BinaryHeap<Ev<F>> = BinaryHeap::new();
    let rc = if swapped { possible_intersection(&l2, &l1, &mut q) } else { possible_intersection(&l1, &l2, &mut q) };
    let queue: Vec<Ev<F>> = q.into_vec();
    let a = SegOutcome { cuts: chain(&l1, &r1, &queue)?, edge_type: format!("{:?}", l1.get_edge_type()) };
    let b = SegOutcome { cuts: chain(&l2, &r2, &queue)?, edge_type: format!("{:?}", l2.get_edge_type()) };
    if queue.len() != 2 * (a.cuts.len() + b.cuts.len()) {
        return Err(format!("{} events queued for {} divisions", queue.len(), a.cuts.len() + b.cuts.len()));
    }
    Ok((Outcome { rc, a, b, queued: queue.len() }, Live { l1, r1, l2, r2, queue }))
}

#[derive(Default)]
pub struct PiStats {
    pub table: BTreeMap<String, u64>,
    pub pairs: u64,
    pub known_n2: u64,
    pub skipped_near_degenerate: u64,
    pub followups: u64,
}

fn bump(st: &mut PiStats, k: String) {
    *st.table.entry(k).or_insert(0) += 1;
}

fn in_both_boxes(p: Pt, s1: Seg, s2: Seg) -> bool {
    let inb = |s: Seg| p.0 >= s.0 .0.min(s.1 .0) && p.0 <= s.0 .0.max(s.1 .0) && p.1 >= s.0 .1.min(s.1 .1) && p.1 <= s.0 .1.max(s.1 .1);
    inb(s1) && inb(s2)
}

fn next_up(x: f64, f32_run: bool) -> f64 {
    if f32_run {
        let v = x as f32;
        let bits = v.to_bits();
        let n = if v == 0.0 {
            f32::from_bits(1)
        } else if v > 0.0 {
            f32::from_bits(bits + 1)
        } else {
            f32::from_bits(bits - 1)
        };
        n as f64
    } else {
        let bits = x.to_bits();
        if x == 0.0 {
            f64::from_bits(1)
        } else if x > 0.0 {
            f64::from_bits(bits + 1)
        } else {
            f64::from_bits(bits - 1)
        }
    }
}

/// N2 signature: the two division points have equal y, x differing by exactly one ulp, the smaller x is the
/// x of the left endpoint of the segment that received the larger one, and the point is below that endpoint.
fn is_n2(pa: Pt, pb: Pt, sa: Seg, sb: Seg, f32_run: bool) -> bool {
    let (sa, sb) = (norm_seg(sa), norm_seg(sb));
    let one = |p_bumped: Pt, p_plain: Pt, s_bumped: Seg| -> bool { p_bumped.1 == p_plain.1 && p_bumped.0 == next_up(p_plain.0, f32_run) && p_plain.0 == s_bumped.0 .0 && p_plain.1 < s_bumped.0 .1 };
    one(pa, pb, sa) || one(pb, pa, sb)
}

pub enum PiVerdict {
    Ok,
    KnownN2(String),
    Violation(String),
}

/// Check one pair in one float type. `exact_int`: integer coordinates (all clauses exact).
pub fn check_pair<F: Real>(pc: &PairCase, exact_int: bool, tol: f64, st: &mut PiStats) -> PiVerdict {
    st.pairs += 1;
    let (s1, s2) = (norm_seg(pc.s1), norm_seg(pc.s2));
    let rel = seg_rel(s1, s2);
    let same_op = pc.subj1 == pc.subj2;
    let before_hits = hooks::hit_count(hooks::Site::DsCorner1Bump);
    let (o, live) = match run_once::<F>(pc, false) {
        Ok(v) => v,
        Err(m) => return PiVerdict::Violation(format!("broken links after the call: {}", m)),
    };
    let bumped = hooks::hit_count(hooks::Site::DsCorner1Bump) > before_hits;
    let (o_sw, _live_sw) = match run_once::<F>(pc, true) {
        Ok(v) => v,
        Err(m) => return PiVerdict::Violation(format!("broken links after the call with swapped arguments: {}", m)),
    };
    let sub = match rel {
        Rel::SharedVertex => {
            if s1.0 == s2.0 {
                "LL"
            } else if s1.1 == s2.1 {
                "RR"
            } else {
                "LR"
            }
        }
        Rel::Overlap => {
            if s1.0 == s2.0 {
                "common-left"
            } else if s1.1 == s2.1 {
                "common-right"
            } else {
                "other"
            }
        }
        _ => "",
    };
    bump(st, format!("{:?}{}{} same_operand={} -> rc={} cuts=({},{}) queued={} types=({},{})", rel, if sub.is_empty() { "" } else { ":" }, sub, same_op, o.rc, o.a.cuts.len(), o.b.cuts.len(), o.queued, o.a.edge_type, o.b.edge_type));
    let untouched = |o: &Outcome| o.a.cuts.is_empty() && o.b.cuts.is_empty() && o.queued == 0 && o.a.edge_type == "Normal" && o.b.edge_type == "Normal";
    let viol = |m: String| PiVerdict::Violation(format!("{} [relation {:?}{} same_operand={} rc={} outcome={:?}]", m, rel, sub, same_op, o.rc, o));
    // argument order independence (roles of typing may swap; a computed crossing point may differ by rounding,
    // because it is evaluated along whichever segment is given first)
    let close = |x: &Vec<Pt>, y: &Vec<Pt>| x.len() == y.len() && x.iter().zip(y.iter()).all(|(p, q)| if rel == Rel::Cross || (rel == Rel::Tee && !exact_int) { (p.0 - q.0).abs() <= tol && (p.1 - q.1).abs() <= tol } else { p == q });
    let float_tee = rel == Rel::Tee && !exact_int;
    if !float_tee && (o.rc != o_sw.rc || !close(&o.a.cuts, &o_sw.a.cuts) || !close(&o.b.cuts, &o_sw.b.cuts) || o.queued != o_sw.queued) {
        return viol(format!("outcome depends on the argument order: swapped gives {:?}", o_sw));
    }
    match rel {
        Rel::Disjoint => {
            if o.rc != 0 {
                return viol("segments are disjoint but an intersection was reported".into());
            }
            if !untouched(&o) {
                return viol("segments are disjoint but were modified".into());
            }
        }
        Rel::SharedVertex => {
            if !untouched(&o) {
                return viol("segments meet only at a common endpoint but were modified".into());
            }
            if o.rc > 1 {
                return viol("segments meet only at a common endpoint but an overlap was reported".into());
            }
        }
        Rel::Cross => {
            if o.rc == 0 {
                return viol("segments cross but no intersection was reported".into());
            }
            if o.rc != 1 || o.a.cuts.len() != 1 || o.b.cuts.len() != 1 {
                return viol("segments cross: expected both to be divided once".into());
            }
            let (pa, pb) = (o.a.cuts[0], o.b.cuts[0]);
            if pa != pb {
                if is_n2(pa, pb, s1, s2, F::IS_F32) && bumped {
                    st.known_n2 += 1;
                    return PiVerdict::KnownN2(format!("division points {:?} / {:?}", pa, pb));
                }
                return viol(format!("the two segments were divided at different points {:?} and {:?}", pa, pb));
            }
            if !in_both_boxes(pa, s1, s2) {
                return viol(format!("division point {:?} lies outside the bounding box of a segment", pa));
            }
            let err = if exact_int {
                let (xn, yn, dn) = cross_point_int(s1, s2).unwrap();
                ((xn as f64 / dn as f64) - pa.0).abs().max(((yn as f64 / dn as f64) - pa.1).abs())
            } else {
                let x = line_x(s1, s2).unwrap();
                (x.0 - pa.0).abs().max((x.1 - pa.1).abs())
            };
            if err > tol {
                return viol(format!("division point {:?} is {:e} away from the true intersection (tolerance {:e})", pa, err, tol));
            }
        }
        Rel::Tee => {
            if o.rc == 0 {
                return viol("an endpoint of one segment lies inside the other but no intersection was reported".into());
            }
            // which one contains the other's endpoint
            let (touch, a_contains) = if in_seg_interior(s1, s2.0) {
                (s2.0, true)
            } else if in_seg_interior(s1, s2.1) {
                (s2.1, true)
            } else if in_seg_interior(s2, s1.0) {
                (s1.0, false)
            } else {
                (s1.1, false)
            };
            let (cont, other) = if a_contains { (&o.a, &o.b) } else { (&o.b, &o.a) };
            if !exact_int && o.rc == 1 && cont.cuts.len() == 1 && other.cuts.len() == 1 {
                // Float pairs (quantifier of C16: containment and common-point clauses only): when the contact point is
                // not recognised bit-exactly as an endpoint, both segments are cut; they must then be cut at one common
                // point inside both bounding boxes and within tolerance of the contact point.
                let (pa, pb) = (cont.cuts[0], other.cuts[0]);
                if pa != pb {
                    if bumped && is_n2(o.a.cuts[0], o.b.cuts[0], s1, s2, F::IS_F32) {
                        st.known_n2 += 1;
                        return PiVerdict::KnownN2(format!("division points {:?} / {:?}", pa, pb));
                    }
                    return viol(format!("T contact in floating coordinates: the two segments were divided at different points {:?} and {:?}", pa, pb));
                }
                if !in_both_boxes(pa, s1, s2) {
                    return viol(format!("T contact in floating coordinates: division point {:?} lies outside the bounding box of a segment", pa));
                }
                if (pa.0 - touch.0).abs() > tol || (pa.1 - touch.1).abs() > tol {
                    return viol(format!("T contact in floating coordinates: division point {:?} is farther than {:e} from the contact point {:?}", pa, tol, touch));
                }
                bump(st, "Tee (float): both segments cut at one common point next to the contact point".into());
                return PiVerdict::Ok;
            }
            if o.rc != 1 || cont.cuts.len() != 1 || !other.cuts.is_empty() {
                return viol("T contact: expected exactly the containing segment to be divided once".into());
            }
            if cont.cuts[0] != touch {
                // N2 can hit a T contact too: the containing segment is cut one ulp to the right
                let cont_seg = if a_contains { s1 } else { s2 };
                if bumped && cont.cuts[0].1 == touch.1 && cont.cuts[0].0 == next_up(touch.0, F::IS_F32) && touch.0 == cont_seg.0 .0 {
                    st.known_n2 += 1;
                    return PiVerdict::KnownN2(format!("T contact cut at {:?} instead of {:?}", cont.cuts[0], touch));
                }
                return viol(format!("T contact: divided at {:?} instead of bit-exactly at the touching endpoint {:?}", cont.cuts[0], touch));
            }
        }
        Rel::Identical | Rel::Overlap if same_op => {
            if o.rc != 0 || !untouched(&o) {
                return viol("collinear overlapping segments of one operand must be left alone".into());
            }
        }
        Rel::Identical => {
            if o.rc != 2 || o.queued != 0 {
                return viol("identical segments of different operands: expected return 2 and no division".into());
            }
            let want = if pc.in_out1 == pc.in_out2 { "SameTransition" } else { "DifferentTransition" };
            if !(o.a.edge_type == want && o.b.edge_type == "NonContributing") {
                return viol(format!("identical segments: expected first typed {} and second NonContributing", want));
            }
            if !(o_sw.b.edge_type == want && o_sw.a.edge_type == "NonContributing") {
                return viol(format!("identical segments, swapped arguments: expected roles to swap, got {:?}", o_sw));
            }
        }
        Rel::Overlap => {
            let (lo, hi) = (lex_max(s1.0, s2.0), lex_min(s1.1, s2.1));
            // expected cuts: overlap endpoints interior to each segment
            let want_cuts = |s: Seg| -> Vec<Pt> {
                let mut v = Vec::new();
                if in_seg_interior(s, lo) {
                    v.push(lo)
                }
                if in_seg_interior(s, hi) {
                    v.push(hi)
                }
                v
            };
            if s1.0 == s2.0 {
                if o.rc != 2 {
                    return viol("overlap with common left endpoint: expected return 2".into());
                }
                let want = if pc.in_out1 == pc.in_out2 { "SameTransition" } else { "DifferentTransition" };
                if !(o.a.edge_type == want && o.b.edge_type == "NonContributing") {
                    return viol(format!("overlap with common left endpoint: expected first typed {} and second NonContributing", want));
                }
            } else {
                if o.rc != 3 {
                    return viol("partial overlap: expected return 3".into());
                }
                if o.a.edge_type != "Normal" || o.b.edge_type != "Normal" {
                    return viol("partial overlap without common left endpoint: nothing may be typed yet".into());
                }
            }
            if o.a.cuts != want_cuts(s1) || o.b.cuts != want_cuts(s2) {
                return viol(format!("overlap: expected cuts {:?} / {:?} (overlap endpoints interior to each segment)", want_cuts(s1), want_cuts(s2)));
            }
            if o.rc == 3 {
                // follow-up as the sweep would do it: the two coincident pieces now share their left endpoint
                st.followups += 1;
                let mut lefts: Vec<Ev<F>> = vec![live.l1.clone(), live.l2.clone()];
                for e in &live.queue {
                    if e.is_left() {
                        lefts.push(e.clone());
                    }
                }
                let piece = lefts.iter().filter(|e| pt(e) == lo && e.get_other_event().map(|o| pt(&o) == hi).unwrap_or(false)).cloned().collect::<Vec<_>>();
                if piece.len() != 2 || piece[0].is_subject == piece[1].is_subject {
                    return viol(format!("partial overlap: expected one piece {:?}-{:?} per operand after the divisions, found {}", lo, hi, piece.len()));
                }
                let mut q2: BinaryHeap<Ev<F>> = BinaryHeap::new();
                let rc2 = possible_intersection(&piece[0], &piece[1], &mut q2);
                if rc2 != 2 || !q2.is_empty() {
                    return viol(format!("follow-up call on the coincident pieces returned {} and queued {} events (expected 2 and none)", rc2, q2.len()));
                }
                if piece[1].get_edge_type() != EdgeType::NonContributing || piece[0].get_edge_type() == EdgeType::Normal || piece[0].get_edge_type() == EdgeType::NonContributing {
                    return viol("follow-up call did not type the coincident pieces".into());
                }
            }
            let _ = (&live.r1, &live.r2);
        }
    }
    PiVerdict::Ok
}

/// integer pair generator biased towards shared endpoints, T contacts, collinear and near-vertical pairs
pub fn gen_int_pair(rng: &mut Rng) -> PairCase {
    let r = [3i64, 6, 40, 1000, 1 << 20, (1 << 25) - 1][rng.below(6) as usize];
    let ptf = |rng: &mut Rng| (rng.range(-r, r), rng.range(-r, r));
    let a0 = ptf(rng);
    let mut a1 = ptf(rng);
    if rng.below(6) == 0 {
        a1.0 = a0.0; // vertical
    }
    if rng.below(10) == 0 {
        a1.0 = a0.0 + 1; // near-vertical
    }
    if a1 == a0 {
        a1.1 += 1;
    }
    let (b0, mut b1);
    match rng.below(8) {
        0 => {
            b0 = a0;
            b1 = ptf(rng);
        }
        1 => {
            b0 = a1;
            b1 = ptf(rng);
        }
        2 => {
            let g = [2i64, 3, 4, 5][rng.below(4) as usize];
            let k = rng.range(0, g);
            // a point on a (exactly, if divisible)
            b0 = (a0.0 + (a1.0 - a0.0) / g * k, a0.1 + (a1.1 - a0.1) / g * k);
            b1 = ptf(rng);
        }
        3 | 4 => {
            // collinear: b = a0 + k*(a1-a0)/g
            let g = [1i64, 2, 4][rng.below(3) as usize];
            let d = ((a1.0 - a0.0) / g, (a1.1 - a0.1) / g);
            let (k1, k2) = (rng.range(-2 * g, 3 * g), rng.range(-2 * g, 3 * g));
            b0 = (a0.0 + d.0 * k1, a0.1 + d.1 * k1);
            b1 = (a0.0 + d.0 * k2, a0.1 + d.1 * k2);
        }
        5 => {
            // crossing near a
            let m = ((a0.0 + a1.0) / 2, (a0.1 + a1.1) / 2);
            let d = ptf(rng);
            b0 = (m.0 - d.0, m.1 - d.1);
            b1 = (m.0 + d.0, m.1 + d.1);
        }
        _ => {
            b0 = ptf(rng);
            b1 = ptf(rng);
        }
    }
    if b1 == b0 {
        b1.1 += 1;
    }
    let f = |p: (i64, i64)| (p.0 as f64, p.1 as f64);
    // the stated domain: |coordinates| < 2^25 (cross products then stay below 2^53 and are exact)
    let lim = (1i64 << 25) - 1;
    let clampp = |p: (i64, i64)| (p.0.clamp(-lim, lim), p.1.clamp(-lim, lim));
    let (a0, a1, b0, mut b1) = (clampp(a0), clampp(a1), clampp(b0), clampp(b1));
    if b1 == b0 {
        b1.1 -= 1;
    }
    let same_op = rng.below(4) == 0;
    let subj1 = rng.below(2) == 0;
    PairCase { s1: (f(a0), f(a1)), s2: (f(b0), f(b1)), subj1, subj2: if same_op { subj1 } else { !subj1 }, in_out1: rng.below(2) == 0, in_out2: rng.below(2) == 0, f32_run: false }
}

/// float pair in general position (well separated crossing or well separated disjoint), else None
pub fn gen_float_pair(rng: &mut Rng, f32_run: bool) -> Option<PairCase> {
    let scale = [1.0, 1e-3, 1e4, 37.5][rng.below(4) as usize];
    let rd = |v: f64| if f32_run { v as f32 as f64 } else { v };
    let p = |rng: &mut Rng| (rd((rng.unit() * 2.0 - 1.0) * scale), rd((rng.unit() * 2.0 - 1.0) * scale));
    let s1 = (p(rng), p(rng));
    let s2 = (p(rng), p(rng));
    if s1.0 == s1.1 || s2.0 == s2.1 {
        return None;
    }
    let eps = if f32_run { 1e-3 } else { 1e-6 };
    let sep = eps * scale;
    match seg_rel(s1, s2) {
        Rel::Cross => {
            let x = line_x(s1, s2)?;
            let (u, v) = (param_on(s1, x), param_on(s2, x));
            if u < eps || u > 1.0 - eps || v < eps || v > 1.0 - eps {
                return None;
            }
            let (ux, uy) = (s1.1 .0 - s1.0 .0, s1.1 .1 - s1.0 .1);
            let (vx, vy) = (s2.1 .0 - s2.0 .0, s2.1 .1 - s2.0 .1);
            let sin = (ux * vy - uy * vx).abs() / ((ux * ux + uy * uy).sqrt() * (vx * vx + vy * vy).sqrt());
            if sin < 0.02 {
                return None;
            }
        }
        Rel::Disjoint => {
            for (q, e) in [(s1.0, s2), (s1.1, s2), (s2.0, s1), (s2.1, s1)] {
                if dist_pt_seg(q, e) < sep {
                    return None;
                }
            }
        }
        _ => return None,
    }
    let subj1 = rng.below(2) == 0;
    Some(PairCase { s1, s2, subj1, subj2: !subj1, in_out1: rng.below(2) == 0, in_out2: rng.below(2) == 0, f32_run })
}

/// T contact with "dirty" decimal coordinates: an endpoint of the first segment lies exactly on an axis-parallel
/// second segment (same ordinate / abscissa, strictly between its ends); `a1 + 1*(a2-a1)` need not reproduce a2
pub fn gen_decimal_tee(rng: &mut Rng) -> PairCase {
    let dec = |rng: &mut Rng| rng.range(-30, 30) as f64 / 10.0;
    let scale = [1.0, 1.0, 7.0, 0.001][rng.below(4) as usize];
    let p = (dec(rng) * scale, dec(rng) * scale); // the contact point, an endpoint of s1
    let mut q = (dec(rng) * scale, dec(rng) * scale); // the other endpoint of s1
    if q == p {
        q.0 += 0.1 * scale;
    }
    let (r1, r2) = ((rng.range(1, 25) as f64 / 10.0) * scale, (rng.range(1, 25) as f64 / 10.0) * scale);
    let horizontal = rng.below(2) == 0;
    let s2 = if horizontal { ((p.0 - r1, p.1), (p.0 + r2, p.1)) } else { ((p.0, p.1 - r1), (p.0, p.1 + r2)) };
    let subj1 = rng.below(2) == 0;
    PairCase { s1: (q, p), s2, subj1, subj2: !subj1, in_out1: rng.below(2) == 0, in_out2: rng.below(2) == 0, f32_run: false }
}

/// exactly parallel segments a tiny distance apart with overlapping bounding boxes (disjoint, but any absolute
/// tolerance in the collinearity test would call them overlapping); all coordinates dyadic so that the shift is exact
/// exactly parallel, disjoint integer segments far from the origin (|coordinate| x length beyond 2^54): a collinearity
/// test evaluated on absolute coordinates instead of differences cancels the small true offset
pub fn gen_far_parallel_pair(rng: &mut Rng) -> PairCase {
    let sgn = |rng: &mut Rng| if rng.below(2) == 0 { 1.0 } else { -1.0 };
    let (bx, by) = (sgn(rng) * (2.0f64).powi(rng.range(40, 51) as i32), sgn(rng) * (2.0f64).powi(rng.range(40, 51) as i32));
    let d = (rng.range(1, 3000) as f64, rng.range(-40, 40) as f64);
    let a = (bx + rng.range(-50, 50) as f64, by + rng.range(-50, 50) as f64);
    let s1 = (a, (a.0 + d.0, a.1 + d.1));
    let off = (0.0, [1.0, 2.0, -1.0, 3.0][rng.below(4) as usize]);
    let (t1, t2) = (rng.range(-1, 0) as f64, rng.range(-1, 1) as f64);
    // second segment: same direction, shifted vertically by a few units and slid along by whole multiples of d
    let s2 = ((a.0 + t1 * d.0 + off.0, a.1 + t1 * d.1 + off.1), (a.0 + (t2 + 2.0) * d.0 + off.0, a.1 + (t2 + 2.0) * d.1 + off.1));
    let subj1 = rng.below(2) == 0;
    PairCase { s1, s2, subj1, subj2: !subj1, in_out1: rng.below(2) == 0, in_out2: rng.below(2) == 0, f32_run: false }
}

pub fn gen_parallel_pair(rng: &mut Rng) -> PairCase {
    let q = 1.0 / (1u64 << 20) as f64;
    let scale = [1.0, 1024.0, 1.0 / 1024.0][rng.below(3) as usize];
    let g = |rng: &mut Rng| (rng.below(1 << 20) as f64) * q * scale;
    let a = (g(rng), g(rng));
    let mut d = (g(rng) - 0.5 * scale, g(rng) - 0.5 * scale);
    if d == (0.0, 0.0) {
        d = (q * scale, 0.0);
    }
    // keep 8 low bits free so that quarter multiples and the shift stay exact
    let d = ((d.0 / (q * scale * 256.0)).round() * q * scale * 256.0, (d.1 / (q * scale * 256.0)).round() * q * scale * 256.0);
    let d = if d == (0.0, 0.0) { (q * scale * 256.0, 0.0) } else { d };
    let s1 = (a, (a.0 + d.0, a.1 + d.1));
    let delta = scale * [2.0f64.powi(-30), 2.0f64.powi(-40), 2.0f64.powi(-25)][rng.below(3) as usize];
    let off = if d.0.abs() >= d.1.abs() { (0.0, delta) } else { (delta, 0.0) };
    let (t1, t2) = ([0.0, 0.25, 0.5][rng.below(3) as usize], [0.75, 1.0, 1.25][rng.below(3) as usize]);
    let s2 = ((a.0 + t1 * d.0 + off.0, a.1 + t1 * d.1 + off.1), (a.0 + t2 * d.0 + off.0, a.1 + t2 * d.1 + off.1));
    let subj1 = rng.below(2) == 0;
    PairCase { s1, s2, subj1, subj2: !subj1, in_out1: rng.below(2) == 0, in_out2: rng.below(2) == 0, f32_run: false }
}

/// ulp-slope constructions around the known one-ulp bump (N2): a steep segment whose x-extent is one ulp,
/// crossed by a long flat one below its left endpoint
pub fn gen_n2_pair(rng: &mut Rng, f32_run: bool) -> PairCase {
    // x of the steep segment's upper-left endpoint: positive, negative, +0.0 and -0.0
    let base = match rng.below(8) {
        0 => 0.0,
        1 => -0.0,
        2 | 3 => -(1.0 + rng.below(1000) as f64 / 8.0),
        _ => 1.0 + rng.below(1000) as f64 / 8.0,
    };
    let x1 = if f32_run { base as f32 as f64 } else { base };
    let x2 = next_up(x1, f32_run);
    let y_top = 10.0 + rng.below(50) as f64;
    let y = rng.below(9) as f64 + 0.5;
    let subj1 = rng.below(2) == 0;
    PairCase { s1: ((x1, y_top), (x2, 0.0)), s2: ((x1 - 1.0 - rng.below(4) as f64, y), (x1 + 1.0 + rng.below(4) as f64, y)), subj1, subj2: !subj1, in_out1: false, in_out2: false, f32_run }
}


/// Two-call history on the same events, as the sweep produces it: first two collinear segments of different operands
/// that start at a common point (the call types them as a coincident pair and cuts the longer one), then a third segment
/// that properly crosses the common piece. The state the first call leaves on the events (edge types, new partners) must
/// not change how the second call treats a crossing: both segments are cut at one common point, within tolerance of the
/// exact crossing point, in either argument order, and for either member of the pair.
pub fn check_two_call_history(rng: &mut Rng, st: &mut PiStats) -> Result<(), String> {
    let p = (rng.range(-50, 50) as f64, rng.range(-50, 50) as f64);
    let d = (rng.range(1, 6) as f64, rng.range(-6, 6) as f64);
    let (ka, kb) = (rng.range(2, 9) as f64, rng.range(2, 9) as f64);
    let kmin = ka.min(kb);
    let j = rng.range(1, kmin as i64 - 1).max(1) as f64;
    if j >= kmin {
        return Ok(());
    }
    let a: Seg = (p, (p.0 + ka * d.0, p.1 + ka * d.1));
    let b: Seg = (p, (p.0 + kb * d.0, p.1 + kb * d.1));
    let x = (p.0 + j * d.0, p.1 + j * d.1);
    // a direction that is not parallel to d
    let mut e = (rng.range(-5, 5) as f64, rng.range(-5, 5) as f64);
    if e.0 * d.1 - e.1 * d.0 == 0.0 {
        e = (-d.1, d.0);
    }
    let (m1, m2) = (rng.range(1, 4) as f64, rng.range(1, 4) as f64);
    let c: Seg = ((x.0 - m1 * e.0, x.1 - m1 * e.1), (x.0 + m2 * e.0, x.1 + m2 * e.1));
    if seg_rel(norm_seg(c), norm_seg((p, (p.0 + kmin * d.0, p.1 + kmin * d.1)))) != Rel::Cross {
        return Ok(());
    }
    let a_is_subject = rng.below(2) == 0;
    let c_is_subject = rng.below(2) == 0;
    let which_twin = rng.below(2) == 0; // the second call uses A's or B's piece
    let c_first = rng.below(2) == 0;
    let (la, _ra) = mk::<f64>(a, a_is_subject, rng.below(2) == 0, 1);
    let (lb, _rb) = mk::<f64>(b, !a_is_subject, rng.below(2) == 0, 2);
    let (lc, _rc) = mk::<f64>(c, c_is_subject, rng.below(2) == 0, 3);
    let mut q: BinaryHeap<Ev<f64>> = BinaryHeap::new();
    let rc1 = if rng.below(2) == 0 { possible_intersection(&la, &lb, &mut q) } else { possible_intersection(&lb, &la, &mut q) };
    let desc = || format!("A={:?} B={:?} (collinear, different operands, common left endpoint) then C={:?} crossing the common piece at {:?}; second call on the piece of {} with C {}", a, b, c, x, if which_twin { "A" } else { "B" }, if c_first { "first" } else { "second" });
    if rc1 != 2 {
        return Err(format!("first call returned {} for an overlapping pair with a common left endpoint: {}", rc1, desc()));
    }
    let piece = if which_twin { la.clone() } else { lb.clone() };
    // same operand as C: the step still has to cut at a proper crossing (self-crossing operands are read even-odd)
    let before = q.len();
    let rc2 = if c_first { possible_intersection(&lc, &piece, &mut q) } else { possible_intersection(&piece, &lc, &mut q) };
    st.followups += 1;
    bump(st, "two-call-histories".into());
    let end_of = |l: &Ev<f64>| l.get_other_event().map(|o| pt(&o));
    let near = |q: Option<Pt>| q.map(|q| (q.0 - x.0).abs() <= 1e-9 && (q.1 - x.1).abs() <= 1e-9).unwrap_or(false);
    if rc2 == 0 || !near(end_of(&piece)) || !near(end_of(&lc)) || end_of(&piece) != end_of(&lc) || q.len() != before + 4 {
        return Err(format!(
            "second call of a two-call history: return {}, the piece now ends at {:?}, C now ends at {:?}, {} events queued (expected both cut at {:?}, 4 events): {}",
            rc2, end_of(&piece), end_of(&lc), q.len() - before, x, desc()
        ));
    }
    Ok(())
}


/// Lifetime history: one long-lived segment is first compared with short-lived disjoint segments (each dropped right
/// after the call, so that the allocator hands their addresses to the next events), then with a segment that properly
/// crosses it. Nothing remembered about a dead event may influence the later call.
pub fn check_lifetime_history(rng: &mut Rng, st: &mut PiStats) -> Result<(), String> {
    let p = (rng.range(-40, 40) as f64, rng.range(-40, 40) as f64);
    let d = (rng.range(2, 8) as f64, rng.range(-3, 3) as f64);
    let k = rng.range(3, 9) as f64;
    let a: Seg = (p, (p.0 + k * d.0, p.1 + k * d.1));
    let a_is_subject = rng.below(2) == 0;
    let (la, _ra) = mk::<f64>(a, a_is_subject, false, 1);
    let mut q: BinaryHeap<Ev<f64>> = BinaryHeap::new();
    let n_dead = rng.range(1, 4);
    for _ in 0..n_dead {
        // a segment strictly above a (same direction, shifted up), possibly with overlapping bounding boxes
        let up = rng.range(1, 6) as f64;
        let j = rng.range(0, k as i64 - 1) as f64;
        let b: Seg = ((p.0 + j * d.0, p.1 + j * d.1 + up), (p.0 + (j + 1.0) * d.0, p.1 + (j + 1.0) * d.1 + up + rng.range(0, 2) as f64));
        if seg_rel(norm_seg(a), norm_seg(b)) != Rel::Disjoint {
            continue;
        }
        let (lb, rb) = mk::<f64>(b, rng.below(2) == 0, false, 2);
        let rc = if rng.below(4) == 0 { possible_intersection(&lb, &la, &mut q) } else { possible_intersection(&la, &lb, &mut q) };
        if rc != 0 || !q.is_empty() {
            return Err(format!("disjoint segments {:?} and {:?}: return {} and {} events queued", a, b, rc, q.len()));
        }
        drop(lb);
        drop(rb);
    }
    let j = rng.range(1, k as i64 - 1) as f64;
    let x = (p.0 + j * d.0, p.1 + j * d.1);
    let mut e = (rng.range(-4, 4) as f64, rng.range(1, 5) as f64);
    if e.0 * d.1 - e.1 * d.0 == 0.0 {
        e = (-d.1, d.0);
    }
    let c: Seg = ((x.0 - e.0, x.1 - e.1), (x.0 + 2.0 * e.0, x.1 + 2.0 * e.1));
    if seg_rel(norm_seg(a), norm_seg(c)) != Rel::Cross {
        return Ok(());
    }
    let (lc, _rcc) = mk::<f64>(c, rng.below(2) == 0, false, 3);
    let rc = possible_intersection(&la, &lc, &mut q);
    st.followups += 1;
    bump(st, "lifetime-histories".into());
    let end_of = |l: &Ev<f64>| l.get_other_event().map(|o| pt(&o));
    let near = |q: Option<Pt>| q.map(|q| (q.0 - x.0).abs() <= 1e-9 && (q.1 - x.1).abs() <= 1e-9).unwrap_or(false);
    if rc == 0 || !near(end_of(&la)) || !near(end_of(&lc)) || q.len() != 4 {
        return Err(format!(
            "after {} calls with disjoint short-lived segments, the long-lived segment {:?} against the crossing segment {:?}: return {}, ends now at {:?} / {:?}, {} events queued (expected both cut at {:?})",
            n_dead, a, c, rc, end_of(&la), end_of(&lc), q.len(), x
        ));
    }
    Ok(())
}
