//! Worker context: case enumeration, journaling, counters, violations, result files.

use crate::gen::Case;
use crate::geom::*;
use crate::util::{Hasher128, Rng};
use serde_json::{json, Map, Value};
use std::collections::{BTreeMap, HashSet};
use std::io::Write;
use std::time::{Duration, Instant};

#[derive(Clone, Copy, Debug, PartialEq, Eq)]
pub enum Tier {
    Quick,
    Thorough,
}
impl Tier {
    pub fn name(self) -> &'static str {
        match self {
            Tier::Quick => "quick",
            Tier::Thorough => "thorough",
        }
    }
    pub fn parse(s: &str) -> Tier {
        match s {
            "quick" => Tier::Quick,
            "thorough" => Tier::Thorough,
            _ => panic!("bad tier {}", s),
        }
    }
}

pub struct Ctx {
    pub prop: String,
    pub tier: Tier,
    pub seed: u64,
    pub shard: u64,
    pub nshards: u64,
    /// build variant this worker runs in: release, dbg, asan, tsan, miri, valgrind
    pub variant: String,
    pub started: Instant,
    pub deadline: Instant,
    pub evaluations: u64,
    pub counters: BTreeMap<String, u64>,
    pub maxima: BTreeMap<String, u64>,
    pub nontrivial: HashSet<u64>,
    pub violations: Vec<Value>,
    pub samples: Vec<Value>,
    pub notes: Vec<String>,
    pub monitor: Map<String, Value>,
    journal: Option<std::fs::File>,
    pub out_path: String,
    pub scale: f64,
    /// replay of a generated case: only this case index is run
    pub only_index: Option<u64>,
}

impl Ctx {
    pub fn new(prop: &str, tier: Tier, seed: u64, shard: u64, nshards: u64, variant: &str, out_path: &str, budget_s: f64) -> Ctx {
        let journal = if out_path.is_empty() { None } else { std::fs::File::create(format!("{}.journal", out_path)).ok() };
        let scale = std::env::var("VERIF_SCALE").ok().and_then(|s| s.parse::<f64>().ok()).unwrap_or(1.0);
        Ctx {
            prop: prop.to_string(),
            tier,
            seed,
            shard,
            nshards,
            variant: variant.to_string(),
            started: Instant::now(),
            deadline: Instant::now() + Duration::from_secs_f64(budget_s),
            evaluations: 0,
            counters: BTreeMap::new(),
            maxima: BTreeMap::new(),
            nontrivial: HashSet::new(),
            violations: Vec::new(),
            samples: Vec::new(),
            notes: Vec::new(),
            monitor: Map::new(),
            journal,
            out_path: out_path.to_string(),
            scale,
            only_index: None,
        }
    }

    pub fn is_slow_variant(&self) -> bool {
        matches!(self.variant.as_str(), "asan" | "tsan" | "miri" | "valgrind")
    }

    /// number of cases for this worker's variant, scaled
    pub fn count(&self, quick: u64, thorough: u64) -> u64 {
        let base = match self.tier {
            Tier::Quick => quick,
            Tier::Thorough => thorough,
        };
        ((base as f64) * self.scale).ceil() as u64
    }

    pub fn size(&self) -> usize {
        match self.tier {
            Tier::Quick => 1,
            Tier::Thorough => 2,
        }
    }

    /// indices of the cases this shard is responsible for
    pub fn my_indices(&self, total: u64) -> Box<dyn Iterator<Item = u64>> {
        if let Some(i) = self.only_index {
            return Box::new(std::iter::once(i));
        }
        let (s, n) = (self.shard, self.nshards);
        Box::new((0..total).filter(move |i| i % n == s))
    }

    /// true when the workload of this worker should stop: its time budget is used up, or it has already recorded so many
    /// violations that the verdict cannot change (a broken tree can make every case expensive, e.g. when each one runs
    /// into a step budget; grinding through the rest would only turn a decided run into a watchdog timeout)
    pub fn out_of_time(&self) -> bool {
        Instant::now() >= self.deadline || self.counters.get("violations_raw").cloned().unwrap_or(0) >= 200
    }

    pub fn rng(&self, label: &str, index: u64) -> Rng {
        Rng::keyed(self.seed, &format!("{}/{}", self.prop, label), index)
    }

    pub fn cnt(&mut self, key: &str, n: u64) {
        *self.counters.entry(key.to_string()).or_insert(0) += n;
    }
    pub fn max(&mut self, key: &str, v: u64) {
        let e = self.maxima.entry(key.to_string()).or_insert(0);
        *e = (*e).max(v);
    }

    /// journal the case about to be handed to the library, so that the supervisor knows what was in flight
    /// if this process dies
    pub fn begin(&mut self, label: &str, index: u64, extra: &str) {
        if let Some(j) = self.journal.as_mut() {
            let _ = j.write_all(format!("BEGIN {} {} {}\n", label, index, extra).as_bytes());
        }
    }
    pub fn end(&mut self) {
        if let Some(j) = self.journal.as_mut() {
            let _ = j.write_all(b"END\n");
        }
    }

    pub fn note_nontrivial(&mut self, h: u64) {
        self.nontrivial.insert(h);
    }

    pub fn sample(&mut self, v: Value) {
        if self.samples.len() < 3 {
            self.samples.push(v);
        }
    }

    pub fn violation(&mut self, symptom: &str, detail: &str, replay: Value) {
        if self.violations.len() < 50 {
            let v = json!({"property": self.prop, "symptom": symptom, "detail": detail, "variant": self.variant, "replay": replay});
            // persisted at once: a violation that was observed stays observed even if this worker later hangs or dies
            if !self.out_path.is_empty() {
                if let Ok(mut f) = std::fs::OpenOptions::new().create(true).append(true).open(format!("{}.viol", self.out_path)) {
                    let _ = f.write_all(format!("{}\n", serde_json::to_string(&v).unwrap()).as_bytes());
                }
            }
            self.violations.push(v);
        }
        self.cnt("violations_raw", 1);
    }

    pub fn finish(&mut self) {
        let mut hashes: Vec<u64> = self.nontrivial.iter().cloned().collect();
        hashes.sort();
        let out = json!({
            "property": self.prop, "shard": self.shard, "nshards": self.nshards, "variant": self.variant,
            "evaluations": self.evaluations, "counters": self.counters, "maxima": self.maxima,
            "violations": self.violations, "samples": self.samples, "notes": self.notes, "monitor": self.monitor,
            "distinct_nontrivial_in_shard": hashes.len(),
            "wall_s": self.started.elapsed().as_secs_f64(), "timed_out": self.out_of_time(), "done": true,
        });
        if self.out_path.is_empty() {
            println!("{}", serde_json::to_string(&out).unwrap());
            println!("HASHES {}", hashes.iter().map(|h| format!("{:x}", h)).collect::<Vec<_>>().join(","));
        } else {
            let mut bytes = Vec::with_capacity(hashes.len() * 8);
            for h in &hashes {
                bytes.extend_from_slice(&h.to_le_bytes());
            }
            std::fs::write(format!("{}.hashes", self.out_path), bytes).expect("write hashes");
            std::fs::write(&self.out_path, serde_json::to_string(&out).unwrap()).expect("write result");
        }
    }
}

// ------------------------------------------------------------------------------------------
// case (de)serialisation for replays

pub fn case_to_json(c: &Case) -> Value {
    json!({
        "family": c.family, "desc": c.desc, "a": mp_to_json(&c.a), "b": mp_to_json(&c.b),
        "exact": c.exact, "exact_f32": c.exact_f32, "integer": c.integer, "f32_ok": c.f32_ok, "self_crossing": c.self_crossing,
        "faces": c.faces.iter().map(|(p, ia, ib)| json!([crate::util::jf(p.0), crate::util::jf(p.1), ia, ib])).collect::<Vec<_>>(),
        "operands_hash": operands_hash(&c.a, &c.b),
    })
}

fn leak(s: &str) -> &'static str {
    Box::leak(s.to_string().into_boxed_str())
}

pub fn case_from_json(v: &Value) -> Case {
    Case {
        family: leak(v["family"].as_str().unwrap_or("replay")),
        desc: v["desc"].as_str().unwrap_or("").to_string(),
        a: mp_from_json(&v["a"]),
        b: mp_from_json(&v["b"]),
        exact: v["exact"].as_bool().unwrap_or(false),
        exact_f32: v["exact_f32"].as_bool().unwrap_or(false),
        integer: v["integer"].as_bool().unwrap_or(false),
        f32_ok: v["f32_ok"].as_bool().unwrap_or(false),
        self_crossing: v["self_crossing"].as_bool().unwrap_or(false),
        faces: v["faces"]
            .as_array()
            .map(|a| a.iter().map(|f| ((crate::util::vf(&f[0]), crate::util::vf(&f[1])), f[2].as_bool().unwrap(), f[3].as_bool().unwrap())).collect())
            .unwrap_or_default(),
    }
}

pub fn case_brief(c: &Case) -> Value {
    json!({"family": c.family, "desc": c.desc, "a": mp_to_json(&c.a), "b": mp_to_json(&c.b)})
}

pub fn case_hash(c: &Case, extra: &str) -> u64 {
    let mut h = Hasher128::default();
    hash_mp(&mut h, &c.a);
    hash_mp(&mut h, &c.b);
    h.str(extra);
    h.low()
}
