//! Small utilities: deterministic RNG streams, hashing, JSON helpers.

use serde_json::{json, Value};

/// SplitMix64.
#[derive(Clone, Debug)]
pub struct Rng(pub u64);

impl Rng {
    /// Stream keyed by (seed, label, index) so that every case is reproducible on its own.
    pub fn keyed(seed: u64, label: &str, index: u64) -> Rng {
        let mut h = fnv64(label.as_bytes()) ^ seed.wrapping_mul(0x9E3779B97F4A7C15);
        h = h.rotate_left(17) ^ index.wrapping_mul(0xD6E8FEB86659FD93);
        let mut r = Rng(h);
        r.next();
        r.next();
        r
    }
    pub fn next(&mut self) -> u64 {
        self.0 = self.0.wrapping_add(0x9E3779B97F4A7C15);
        let mut z = self.0;
        z = (z ^ (z >> 30)).wrapping_mul(0xBF58476D1CE4E5B9);
        z = (z ^ (z >> 27)).wrapping_mul(0x94D049BB133111EB);
        z ^ (z >> 31)
    }
    pub fn below(&mut self, n: u64) -> u64 {
        if n == 0 {
            0
        } else {
            self.next() % n
        }
    }
    pub fn range(&mut self, lo: i64, hi: i64) -> i64 {
        lo + (self.next() % ((hi - lo + 1) as u64)) as i64
    }
    pub fn chance(&mut self, num: u64, den: u64) -> bool {
        self.below(den) < num
    }
    /// uniform in [0,1)
    pub fn unit(&mut self) -> f64 {
        (self.next() >> 11) as f64 / (1u64 << 53) as f64
    }
    pub fn pick<'a, T>(&mut self, v: &'a [T]) -> &'a T {
        &v[self.below(v.len() as u64) as usize]
    }
    pub fn shuffle<T>(&mut self, v: &mut [T]) {
        for i in (1..v.len()).rev() {
            let j = self.below(i as u64 + 1) as usize;
            v.swap(i, j);
        }
    }
}

pub fn fnv64(bytes: &[u8]) -> u64 {
    let mut h: u64 = 0xcbf29ce484222325;
    for b in bytes {
        h ^= *b as u64;
        h = h.wrapping_mul(0x100000001b3);
    }
    h
}

/// 128-bit content hash (two independent FNV/mix lanes), hex encoded.
pub struct Hasher128 {
    a: u64,
    b: u64,
}
impl Default for Hasher128 {
    fn default() -> Self {
        Hasher128 {
            a: 0xcbf29ce484222325,
            b: 0x84222325cbf29ce4,
        }
    }
}
impl Hasher128 {
    pub fn u64(&mut self, v: u64) {
        for byte in v.to_le_bytes() {
            self.a ^= byte as u64;
            self.a = self.a.wrapping_mul(0x100000001b3);
        }
        self.b = (self.b ^ v).wrapping_mul(0x9E3779B97F4A7C15).rotate_left(29) ^ 0x5851F42D4C957F2D;
    }
    pub fn f64(&mut self, v: f64) {
        // -0.0 and 0.0 are different inputs for bit-level purposes, keep bits
        self.u64(v.to_bits())
    }
    pub fn str(&mut self, s: &str) {
        for b in s.bytes() {
            self.u64(b as u64)
        }
        self.u64(0xff)
    }
    pub fn hex(&self) -> String {
        format!("{:016x}{:016x}", self.a, self.b)
    }
    pub fn low(&self) -> u64 {
        self.a ^ self.b.rotate_left(32)
    }
}

pub fn jpt(p: (f64, f64)) -> Value {
    json!([jf(p.0), jf(p.1)])
}

/// f64 as JSON; non-finite values as strings (cannot occur in valid cases, but replays must not lose them)
pub fn jf(v: f64) -> Value {
    if v.is_finite() {
        // serde_json prints the shortest representation that round-trips
        json!(v)
    } else {
        json!(format!("{}", v))
    }
}

pub fn vf(v: &Value) -> f64 {
    match v {
        Value::Number(n) => n.as_f64().unwrap_or_else(|| n.to_string().parse::<f64>().unwrap()),
        Value::String(s) => s.parse::<f64>().unwrap(),
        _ => panic!("not a number: {}", v),
    }
}

pub fn now_s() -> f64 {
    use std::time::{SystemTime, UNIX_EPOCH};
    SystemTime::now().duration_since(UNIX_EPOCH).unwrap().as_secs_f64()
}

// ------------------------------------------------------------------------------------------
// counting allocator (installed as the global allocator of the vcheck binary): live and peak heap bytes

use std::alloc::{GlobalAlloc, Layout, System};
use std::sync::atomic::{AtomicUsize, Ordering as AtomicOrdering};

pub struct CountingAlloc;
static LIVE_BYTES: AtomicUsize = AtomicUsize::new(0);
static PEAK_BYTES: AtomicUsize = AtomicUsize::new(0);

unsafe impl GlobalAlloc for CountingAlloc {
    unsafe fn alloc(&self, layout: Layout) -> *mut u8 {
        let p = System.alloc(layout);
        if !p.is_null() {
            let live = LIVE_BYTES.fetch_add(layout.size(), AtomicOrdering::Relaxed) + layout.size();
            PEAK_BYTES.fetch_max(live, AtomicOrdering::Relaxed);
        }
        p
    }
    unsafe fn dealloc(&self, p: *mut u8, layout: Layout) {
        System.dealloc(p, layout);
        LIVE_BYTES.fetch_sub(layout.size(), AtomicOrdering::Relaxed);
    }
    unsafe fn realloc(&self, p: *mut u8, layout: Layout, new_size: usize) -> *mut u8 {
        let q = System.realloc(p, layout, new_size);
        if !q.is_null() {
            if new_size >= layout.size() {
                let live = LIVE_BYTES.fetch_add(new_size - layout.size(), AtomicOrdering::Relaxed) + (new_size - layout.size());
                PEAK_BYTES.fetch_max(live, AtomicOrdering::Relaxed);
            } else {
                LIVE_BYTES.fetch_sub(layout.size() - new_size, AtomicOrdering::Relaxed);
            }
        }
        q
    }
}

pub fn heap_live() -> usize {
    LIVE_BYTES.load(AtomicOrdering::Relaxed)
}
/// start a measurement: peak := live; returns live
pub fn heap_mark() -> usize {
    let live = LIVE_BYTES.load(AtomicOrdering::Relaxed);
    PEAK_BYTES.store(live, AtomicOrdering::Relaxed);
    live
}
pub fn heap_peak() -> usize {
    PEAK_BYTES.load(AtomicOrdering::Relaxed)
}

/// Root under which work/, replays/ and evidence/ are written (default /verif).
pub fn verif_root() -> String {
    std::env::var("VERIF_ROOT").ok().filter(|s| !s.is_empty()).unwrap_or_else(|| "/verif".to_string())
}

/// The committed, read-only list of known findings: always the one in /verif unless the output root carries its own copy
/// (a `vp run` snapshot of /verif does).
pub fn known_findings_path() -> String {
    let p = format!("{}/known_findings.json", verif_root());
    if std::path::Path::new(&p).exists() {
        p
    } else {
        "/verif/known_findings.json".to_string()
    }
}
