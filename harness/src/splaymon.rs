//! C17 (splay tree == sorted map for every history) and the scenarios of C18 (bounded stack).

use crate::util::Rng;
use geo_booleanop::splay::{SplaySet, SplayTree};
use std::cell::Cell;
use std::cmp::Ordering;
use std::collections::{BTreeMap, BTreeSet, HashMap, VecDeque};
use std::ops::Bound::{Excluded, Unbounded};
use std::rc::Rc;

// ------------------------------------------------------------------------------------------
// drop-counting keys and values

thread_local! {
    static LIVE: Cell<i64> = const { Cell::new(0) };
    static CREATED: Cell<u64> = const { Cell::new(0) };
    static DROPPED: Cell<u64> = const { Cell::new(0) };
}

#[derive(Debug)]
pub struct Tracked(pub i32);
impl Tracked {
    pub fn new(v: i32) -> Tracked {
        LIVE.with(|l| l.set(l.get() + 1));
        CREATED.with(|l| l.set(l.get() + 1));
        Tracked(v)
    }
}
impl Drop for Tracked {
    fn drop(&mut self) {
        LIVE.with(|l| l.set(l.get() - 1));
        DROPPED.with(|l| l.set(l.get() + 1));
    }
}
pub fn live() -> i64 {
    LIVE.with(|l| l.get())
}
pub fn created_dropped() -> (u64, u64) {
    (CREATED.with(|l| l.get()), DROPPED.with(|l| l.get()))
}

fn tcmp(a: &Tracked, b: &Tracked) -> Ordering {
    a.0.cmp(&b.0)
}

type TTree = SplayTree<Tracked, Tracked, fn(&Tracked, &Tracked) -> Ordering>;

#[derive(Default, Debug, Clone)]
pub struct SplayStats {
    pub ops: u64,
    pub histories: u64,
    pub structural_walks: u64,
    pub reference_checks: u64,
    pub iterations: u64,
    pub max_len: u64,
    /// loop iterations inside the tree (hook counter) in the most expensive history
    pub max_splay_steps_per_history: u64,
    pub op_counts: BTreeMap<String, u64>,
}
impl SplayStats {
    fn op(&mut self, name: &str) {
        self.ops += 1;
        *self.op_counts.entry(name.to_string()).or_insert(0) += 1;
    }
    pub fn add(&mut self, o: &SplayStats) {
        self.ops += o.ops;
        self.histories += o.histories;
        self.structural_walks += o.structural_walks;
        self.reference_checks += o.reference_checks;
        self.iterations += o.iterations;
        self.max_len = self.max_len.max(o.max_len);
        self.max_splay_steps_per_history = self.max_splay_steps_per_history.max(o.max_splay_steps_per_history);
        for (k, v) in &o.op_counts {
            *self.op_counts.entry(k.clone()).or_insert(0) += v;
        }
    }
    pub fn to_json(&self) -> serde_json::Value {
        serde_json::json!({"operations": self.ops, "histories": self.histories, "structural_walks": self.structural_walks,
            "reference_stability_checks": self.reference_checks, "consuming_iterations": self.iterations, "max_len": self.max_len,
            "max_loop_iterations_inside_the_tree_per_history": self.max_splay_steps_per_history, "per_operation": self.op_counts})
    }
}

/// structural walk (hook H4): keys strictly increasing, length == len(), content == model
fn check_walk(t: &TTree, m: &BTreeMap<i32, i32>, st: &mut SplayStats) -> Result<(), String> {
    st.structural_walks += 1;
    let walk = t.verif_inorder();
    if walk.len() != t.len() {
        return Err(format!("structural walk finds {} nodes but len() = {}", walk.len(), t.len()));
    }
    if t.len() != m.len() {
        return Err(format!("len() = {} but the reference map holds {} keys", t.len(), m.len()));
    }
    if t.is_empty() != m.is_empty() {
        return Err("is_empty() disagrees with the reference".into());
    }
    let mut it = m.iter();
    let mut prev: Option<i32> = None;
    for (k, v, _) in &walk {
        if let Some(p) = prev {
            if p >= k.0 {
                return Err(format!("in-order walk not strictly increasing: {} then {}", p, k.0));
            }
        }
        prev = Some(k.0);
        match it.next() {
            Some((mk, mv)) if *mk == k.0 && *mv == v.0 => {}
            other => return Err(format!("in-order walk has ({},{}) where the reference has {:?}", k.0, v.0, other)),
        }
    }
    Ok(())
}

/// One random history in lock-step with BTreeMap. `universe`: keys are drawn from 0..universe.
/// Arms the step budget of the splay tree's loops (hook H1, `Loop::SplayStep`) for the current thread: a loop of the tree
/// that stops making progress exceeds it and panics with the distinctive budget message instead of hanging the worker.
/// The bound is a deliberately generous worst case (every operation may walk the whole tree), not a complexity claim.
pub fn arm_splay(budget: u64) {
    geo_booleanop::verif::reset_steps();
    geo_booleanop::verif::set_budget(geo_booleanop::verif::Loop::SplayStep, budget);
}

pub fn disarm_splay() {
    geo_booleanop::verif::set_budget(geo_booleanop::verif::Loop::SplayStep, u64::MAX);
}

pub fn splay_steps() -> u64 {
    geo_booleanop::verif::steps(geo_booleanop::verif::Loop::SplayStep)
}

fn history_budget(steps: usize, universe: i32) -> u64 {
    let len = (universe as u64 + 8).min(steps as u64 * 4 + 16) + 8;
    64 * len * (steps as u64 * 4 + 8) + 8 * len * len
}

pub fn random_history(rng: &mut Rng, steps: usize, universe: i32, st: &mut SplayStats, log: &mut Vec<String>) -> Result<(), String> {
    let base_live = live();
    arm_splay(history_budget(steps, universe));
    let res = random_history_inner(rng, steps, universe, st, log);
    st.max_splay_steps_per_history = st.max_splay_steps_per_history.max(splay_steps());
    disarm_splay();
    if res.is_ok() && live() != base_live {
        return Err(format!("drop accounting: {} tracked keys/values still alive after the tree was dropped (created - dropped != held)", live() - base_live));
    }
    res
}

fn random_history_inner(rng: &mut Rng, steps: usize, universe: i32, st: &mut SplayStats, log: &mut Vec<String>) -> Result<(), String> {
    st.histories += 1;
    let mut t: TTree = SplayTree::new(tcmp);
    let mut m: BTreeMap<i32, i32> = BTreeMap::new();
    let base_live = live();
    let mode = rng.below(4); // 0 random, 1 ascending runs, 2 descending runs, 3 zig-zag
    let mut cursor: i32 = if mode == 2 { universe - 1 } else { 0 };
    let mut stamp = 0i32;
    for step in 0..steps {
        let k = match (mode, rng.below(4)) {
            (1, 0..=2) => {
                cursor = (cursor + 1) % universe;
                cursor
            }
            (2, 0..=2) => {
                cursor = (cursor + universe - 1) % universe;
                cursor
            }
            (3, 0..=2) => {
                cursor = (cursor + 1) % universe;
                if cursor % 2 == 0 {
                    cursor / 2
                } else {
                    universe - 1 - cursor / 2
                }
            }
            _ => rng.below(universe as u64 + 2) as i32 - 1, // includes absent keys below and above the universe
        };
        let key = Tracked::new(k);
        stamp += 1;
        let which = rng.below(100);
        let tag;
        macro_rules! fail {
            ($($arg:tt)*) => {{
                log.push(format!("step {} {} key {}", step, tag, k));
                return Err(format!($($arg)*));
            }};
        }
        match which {
            0..=24 => {
                tag = "insert";
                st.op(tag);
                let got = t.insert(Tracked::new(k), Tracked::new(stamp)).map(|v| v.0);
                let want = m.insert(k, stamp);
                if got != want {
                    fail!("insert({}) returned {:?}, reference {:?}", k, got, want);
                }
            }
            25..=39 => {
                tag = "remove";
                st.op(tag);
                let got = t.remove(&key).map(|v| v.0);
                let want = m.remove(&k);
                if got != want {
                    fail!("remove({}) returned {:?}, reference {:?}", k, got, want);
                }
            }
            40..=47 => {
                tag = "get";
                st.op(tag);
                let got = t.get(&key).map(|v| v.0);
                if got != m.get(&k).cloned() {
                    fail!("get({}) returned {:?}, reference {:?}", k, got, m.get(&k));
                }
            }
            48..=51 => {
                tag = "get_mut";
                st.op(tag);
                let got = t.get_mut(&key).map(|v| {
                    let old = v.0;
                    v.0 = stamp;
                    old
                });
                let want = m.get_mut(&k).map(|v| {
                    let old = *v;
                    *v = stamp;
                    old
                });
                if got != want {
                    fail!("get_mut({}) saw {:?}, reference {:?}", k, got, want);
                }
            }
            52..=56 => {
                tag = "contains";
                st.op(tag);
                if t.contains(&key) != m.contains_key(&k) {
                    fail!("contains({}) = {}, reference {}", k, t.contains(&key), m.contains_key(&k));
                }
            }
            57..=60 => {
                tag = "find_key";
                st.op(tag);
                let got = t.find_key(&key).map(|x| x.0);
                let want = if m.contains_key(&k) { Some(k) } else { None };
                if got != want {
                    fail!("find_key({}) returned {:?}, reference {:?}", k, got, want);
                }
            }
            61..=69 => {
                tag = "next";
                st.op(tag);
                let got = t.next(&key).map(|(a, b)| (a.0, b.0));
                let want = m.range((Excluded(k), Unbounded)).next().map(|(a, b)| (*a, *b));
                if got != want {
                    fail!("next({}) returned {:?}, reference {:?}", k, got, want);
                }
            }
            70..=78 => {
                tag = "prev";
                st.op(tag);
                let got = t.prev(&key).map(|(a, b)| (a.0, b.0));
                let want = m.range(..k).next_back().map(|(a, b)| (*a, *b));
                if got != want {
                    fail!("prev({}) returned {:?}, reference {:?}", k, got, want);
                }
            }
            79..=81 => {
                tag = "min/max";
                st.op(tag);
                let (gmin, gmax) = (t.min().map(|x| x.0), t.max().map(|x| x.0));
                let (wmin, wmax) = (m.keys().next().cloned(), m.keys().next_back().cloned());
                if gmin != wmin || gmax != wmax {
                    fail!("min/max returned {:?}/{:?}, reference {:?}/{:?}", gmin, gmax, wmin, wmax);
                }
            }
            82..=84 => {
                tag = "index";
                st.op(tag);
                if m.contains_key(&k) {
                    let got = t[&key].0;
                    if got != m[&k] {
                        fail!("tree[{}] = {}, reference {}", k, got, m[&k]);
                    }
                    t[&key].0 = stamp;
                    m.insert(k, stamp);
                }
            }
            85..=87 => {
                tag = "extend";
                st.op(tag);
                // mostly short batches, sometimes a long one (dozens of items) in which keys repeat with different values:
                // the last value for a key must win, as in the reference map
                let n = if rng.below(4) == 0 { rng.range(20, 70) as i32 } else { rng.below(6) as i32 };
                let span = if n > 6 && rng.below(2) == 0 { (universe as u64).min(7) } else { universe as u64 };
                let items: Vec<(i32, i32)> = (0..n).map(|i| (rng.below(span) as i32, stamp * 100 + i)).collect();
                t.extend(items.iter().map(|(a, b)| (Tracked::new(*a), Tracked::new(*b))));
                for (a, b) in items {
                    m.insert(a, b);
                }
            }
            88 => {
                tag = "clear";
                st.op(tag);
                t.clear();
                m.clear();
                if live() != base_live + 1 {
                    fail!("drop accounting after clear(): {} tracked objects alive, expected only the probe key", live() - base_live);
                }
            }
            89..=93 => {
                // reference stability: keep references handed out by lookups across further lookups
                tag = "reference-stability";
                st.op(tag);
                if let Some((rk, rv)) = t.next(&key) {
                    let (ak, av, vk, vv) = (rk as *const Tracked, rv as *const Tracked, rk.0, rv.0);
                    for _ in 0..6 {
                        let q = Tracked::new(rng.below(universe as u64 + 2) as i32 - 1);
                        match rng.below(6) {
                            0 => {
                                let _ = t.get(&q);
                            }
                            1 => {
                                let _ = t.find_key(&q);
                            }
                            2 => {
                                let _ = t.prev(&q);
                            }
                            3 => {
                                let _ = t.next(&q);
                            }
                            4 => {
                                let _ = t.contains(&q);
                            }
                            _ => {
                                let _ = (t.min(), t.max());
                            }
                        }
                    }
                    st.reference_checks += 1;
                    // the references must still denote the same element ...
                    if rk.0 != vk || rv.0 != vv {
                        fail!("reference handed out by next({}) changed its value from ({},{}) to ({},{}) after further lookups", k, vk, vv, rk.0, rv.0);
                    }
                    // ... at the same address as the tree's own node for that key
                    let probe = Tracked::new(vk);
                    let again = t.find_key(&probe).map(|x| x as *const Tracked);
                    if again != Some(ak) {
                        fail!("element {} moved: address {:?} handed out, now {:?}", vk, ak, again);
                    }
                    let again_v = t.get(&probe).map(|x| x as *const Tracked);
                    if again_v != Some(av) {
                        fail!("value of {} moved: address {:?} handed out, now {:?}", vk, av, again_v);
                    }
                }
            }
            _ => {
                // consuming iteration, then rebuild
                tag = "into_iter";
                st.op(tag);
                st.iterations += 1;
                let style = rng.below(5);
                let old = std::mem::replace(&mut t, SplayTree::new(tcmp));
                if style == 4 {
                    // through an iterator adaptor (any of which the iterator may override) instead of next / next_back
                    let want: Vec<(i32, i32)> = m.iter().map(|(a, b)| (*a, *b)).collect();
                    let total = want.len();
                    let kind = rng.below(9);
                    let it = old.into_iter();
                    let ok = match kind {
                        0 => it.count() == total,
                        1 => it.last().map(|(a, b)| (a.0, b.0)) == want.last().cloned(),
                        2 => it.map(|(a, b)| (a.0, b.0)).collect::<Vec<_>>() == want,
                        3 => it.rev().map(|(a, b)| (a.0, b.0)).collect::<Vec<_>>() == want.iter().rev().cloned().collect::<Vec<_>>(),
                        4 => it.fold(0i64, |s, (a, _)| s.wrapping_mul(31).wrapping_add(a.0 as i64)) == want.iter().fold(0i64, |s, (a, _)| s.wrapping_mul(31).wrapping_add(*a as i64)),
                        5 => it.rfold(0i64, |s, (a, _)| s.wrapping_mul(31).wrapping_add(a.0 as i64)) == want.iter().rfold(0i64, |s, (a, _)| s.wrapping_mul(31).wrapping_add(*a as i64)),
                        6 => {
                            let k = rng.below(total as u64 + 2) as usize;
                            it.skip(k).map(|(a, b)| (a.0, b.0)).next() == want.get(k).cloned()
                        }
                        7 => {
                            let k = rng.below(total as u64 + 2) as usize;
                            let mut it = it;
                            let got = it.nth_back(k).map(|(a, b)| (a.0, b.0));
                            got == if k < total { Some(want[total - 1 - k]) } else { None }
                        }
                        _ => {
                            let mut c = 0usize;
                            it.for_each(|_| c += 1);
                            c == total
                        }
                    };
                    if !ok {
                        fail!("consuming iteration through adaptor #{} disagrees with the reference {:?}", kind, want);
                    }
                    if live() != base_live + 1 {
                        fail!("drop accounting after into_iter through adaptor #{}: {} tracked objects alive, expected only the probe key", kind, live() - base_live);
                    }
                    m.clear();
                    continue;
                }
                let mut it = old.into_iter();
                let mut front: Vec<(i32, i32)> = Vec::new();
                let mut back: Vec<(i32, i32)> = Vec::new();
                let total = m.len();
                let limit = if style == 3 { rng.below(total as u64 + 1) as usize } else { usize::MAX };
                let mut taken = 0;
                loop {
                    let (lo, hi) = it.size_hint();
                    if lo != total - taken || hi != Some(total - taken) || it.len() != total - taken {
                        fail!("size_hint/len {:?}/{} but {} elements remain", (lo, hi), it.len(), total - taken);
                    }
                    if taken >= limit {
                        break;
                    }
                    let from_back = match style {
                        0 => false,
                        1 => true,
                        _ => rng.below(2) == 0,
                    };
                    let item = if from_back { it.next_back() } else { it.next() };
                    match item {
                        Some((a, b)) => {
                            taken += 1;
                            if from_back {
                                back.push((a.0, b.0))
                            } else {
                                front.push((a.0, b.0))
                            }
                        }
                        None => break,
                    }
                }
                let want: Vec<(i32, i32)> = m.iter().map(|(a, b)| (*a, *b)).collect();
                back.reverse();
                if taken < total {
                    // partially consumed: prefix and suffix must match, the rest is dropped with the iterator
                    if front[..] != want[..front.len()] || back[..] != want[total - back.len()..] {
                        fail!("partial iteration yielded {:?} ... {:?}, reference {:?}", front, back, want);
                    }
                    drop(it);
                } else {
                    if it.next().is_some() || it.next_back().is_some() {
                        fail!("iterator yields more elements than len()");
                    }
                    front.extend(back);
                    if front != want {
                        fail!("consuming iteration (style {}) yielded {:?}, reference {:?}", style, front, want);
                    }
                    drop(it);
                }
                if live() != base_live + 1 {
                    fail!("drop accounting after into_iter (consumed {} of {}): {} tracked objects alive, expected only the probe key", taken, total, live() - base_live);
                }
                m.clear();
            }
        }
        drop(key);
        st.max_len = st.max_len.max(t.len() as u64);
        if live() != base_live + 2 * m.len() as i64 {
            log.push(format!("step {} {} key {}", step, tag, k));
            return Err(format!("drop accounting: {} tracked objects alive but the tree should hold {} keys and {} values", live() - base_live, m.len(), m.len()));
        }
        if step % 7 == 0 || steps < 200 {
            if let Err(e) = check_walk(&t, &m, st) {
                log.push(format!("step {} {} key {}", step, tag, k));
                return Err(e);
            }
        }
        if log.len() < 40 {
            log.push(format!("{}({})", tag, k));
        }
    }
    check_walk(&t, &m, st)?;
    drop(t);
    Ok(())
}

/// Random history with keys that carry a tag the comparator ignores (a consistent comparator that is coarser than
/// key identity): like the reference map and set, the tree must keep the key that was stored FIRST when an equivalent key is
/// inserted again (the map replaces only the value, the set changes nothing), and every lookup must hand out that stored key.
pub fn random_tagged_history(rng: &mut Rng, steps: usize, universe: i32, st: &mut SplayStats) -> Result<(), String> {
    arm_splay(history_budget(steps, universe));
    let r = random_tagged_history_inner(rng, steps, universe, st);
    disarm_splay();
    r
}

fn random_tagged_history_inner(rng: &mut Rng, steps: usize, universe: i32, st: &mut SplayStats) -> Result<(), String> {
    st.histories += 1;
    type K = (i32, u32); // (ordering part, tag)
    let cmp = |a: &K, b: &K| a.0.cmp(&b.0);
    let mut t: SplayTree<K, u32, _> = SplayTree::new(cmp);
    let mut s: SplaySet<K, _> = SplaySet::new(cmp);
    // reference: ordering part -> (tag of the stored key, value)
    let mut m: BTreeMap<i32, (u32, u32)> = BTreeMap::new();
    let mut ms: BTreeMap<i32, u32> = BTreeMap::new();
    for step in 0..steps as u32 {
        let k = rng.below(universe as u64) as i32;
        let tag = step + 1;
        match rng.below(10) {
            0..=3 => {
                st.op("tagged.insert");
                let got = t.insert((k, tag), tag);
                let want = match m.get_mut(&k) {
                    Some(e) => {
                        let old = e.1;
                        e.1 = tag; // value replaced, key kept
                        Some(old)
                    }
                    None => {
                        m.insert(k, (tag, tag));
                        None
                    }
                };
                if got != want {
                    return Err(format!("tagged insert({}) returned {:?}, reference {:?}", k, got, want));
                }
                let fresh = s.insert((k, tag));
                if fresh != !ms.contains_key(&k) {
                    return Err(format!("tagged set insert({}) returned {}", k, fresh));
                }
                ms.entry(k).or_insert(tag);
            }
            4 => {
                st.op("tagged.remove");
                if t.remove(&(k, 0)) != m.remove(&k).map(|e| e.1) {
                    return Err(format!("tagged remove({}) disagrees with the reference", k));
                }
                if s.remove(&(k, 0)) != ms.remove(&k).is_some() {
                    return Err(format!("tagged set remove({}) disagrees with the reference", k));
                }
            }
            5..=6 => {
                st.op("tagged.find_key");
                let got = t.find_key(&(k, 0)).cloned();
                let want = m.get(&k).map(|e| (k, e.0));
                if got != want {
                    return Err(format!("find_key({}) hands out {:?}, the stored key is {:?}", k, got, want));
                }
                let got = s.find(&(k, 0)).cloned();
                let want = ms.get(&k).map(|tg| (k, *tg));
                if got != want {
                    return Err(format!("set find({}) hands out {:?}, the stored element is {:?}", k, got, want));
                }
            }
            7 => {
                st.op("tagged.next/prev");
                let got = t.next(&(k, 0)).map(|(a, _)| *a);
                let want = m.range((Excluded(k), Unbounded)).next().map(|(a, e)| (*a, e.0));
                if got != want {
                    return Err(format!("next({}) hands out key {:?}, the stored key is {:?}", k, got, want));
                }
                let got = s.prev(&(k, 0)).cloned();
                let want = ms.range(..k).next_back().map(|(a, tg)| (*a, *tg));
                if got != want {
                    return Err(format!("set prev({}) hands out {:?}, the stored element is {:?}", k, got, want));
                }
            }
            8 => {
                st.op("tagged.min/max");
                if t.min().cloned() != m.iter().next().map(|(a, e)| (*a, e.0)) || t.max().cloned() != m.iter().next_back().map(|(a, e)| (*a, e.0)) || s.min().cloned() != ms.iter().next().map(|(a, tg)| (*a, *tg)) {
                    return Err("min/max hand out a key other than the stored one".into());
                }
            }
            _ => {
                st.op("tagged.extend");
                let items: Vec<(K, u32)> = (0..rng.below(5)).map(|i| ((rng.below(universe as u64) as i32, tag * 8 + i as u32), tag)).collect();
                for (key, v) in &items {
                    match m.get_mut(&key.0) {
                        Some(e) => e.1 = *v,
                        None => {
                            m.insert(key.0, (key.1, *v));
                        }
                    }
                }
                t.extend(items.into_iter());
            }
        }
        if t.len() != m.len() || s.len() != ms.len() {
            return Err(format!("len {} / {} but the references hold {} / {}", t.len(), s.len(), m.len(), ms.len()));
        }
    }
    st.iterations += 1;
    let got: Vec<(K, u32)> = t.into_iter().collect();
    let want: Vec<(K, u32)> = m.iter().map(|(a, e)| ((*a, e.0), e.1)).collect();
    if got != want {
        return Err(format!("consuming iteration yields {:?}, the stored keys and values are {:?}", got, want));
    }
    let got: Vec<K> = s.into_iter().collect();
    let want: Vec<K> = ms.iter().map(|(a, tg)| (*a, *tg)).collect();
    if got != want {
        return Err(format!("set iteration yields {:?}, the stored elements are {:?}", got, want));
    }
    Ok(())
}

/// Random history on the set wrapper, with `Rc` elements and a comparator on the pointee, the way the
/// sweep uses it (identity of the Rc matters to the caller, ordering comes from the comparator).
pub fn random_set_history(rng: &mut Rng, steps: usize, universe: i32, st: &mut SplayStats) -> Result<(), String> {
    arm_splay(history_budget(steps, universe));
    let r = random_set_history_inner(rng, steps, universe, st);
    st.max_splay_steps_per_history = st.max_splay_steps_per_history.max(splay_steps());
    disarm_splay();
    r
}

fn random_set_history_inner(rng: &mut Rng, steps: usize, universe: i32, st: &mut SplayStats) -> Result<(), String> {
    st.histories += 1;
    let pool: Vec<Rc<i32>> = (0..universe).map(Rc::new).collect();
    let mut t = SplaySet::new(|a: &Rc<i32>, b: &Rc<i32>| if Rc::ptr_eq(a, b) { Ordering::Equal } else { a.cmp(b) });
    let mut m: BTreeSet<i32> = BTreeSet::new();
    for _ in 0..steps {
        let k = rng.below(universe as u64) as i32;
        let key = &pool[k as usize];
        // clear is rare (it ends a long build-up), extend occasional, the rest as before
        let sel = rng.below(192);
        let arm = if sel == 0 {
            12
        } else if sel < 12 {
            13
        } else {
            sel % 12
        };
        match arm {
            12 => {
                st.op("set.clear");
                t.clear();
                m.clear();
                if t.len() != 0 || !t.is_empty() || t.min().is_some() || t.max().is_some() || t.verif_inorder().len() != 0 {
                    return Err("set is not empty after clear()".into());
                }
            }
            13 => {
                st.op("set.extend");
                let n = rng.below(6) as usize;
                let items: Vec<i32> = (0..n).map(|_| rng.below(universe as u64) as i32).collect();
                t.extend(items.iter().map(|i| pool[*i as usize].clone()));
                m.extend(items.iter().cloned());
                if t.len() != m.len() {
                    return Err(format!("set len after extend({:?}) is {}, reference {}", items, t.len(), m.len()));
                }
            }
            0..=3 => {
                st.op("set.insert");
                if t.insert(key.clone()) != m.insert(k) {
                    return Err(format!("set insert({}) disagrees with the reference", k));
                }
            }
            4..=5 => {
                st.op("set.remove");
                if t.remove(key) != m.remove(&k) {
                    return Err(format!("set remove({}) disagrees with the reference", k));
                }
            }
            6 => {
                st.op("set.contains/find");
                if t.contains(key) != m.contains(&k) || t.find(key).map(|x| **x) != m.get(&k).cloned() {
                    return Err(format!("set contains/find({}) disagrees with the reference", k));
                }
            }
            7..=8 => {
                st.op("set.next");
                let got = t.next(key).map(|x| **x);
                let want = m.range((Excluded(k), Unbounded)).next().cloned();
                if got != want {
                    return Err(format!("set next({}) = {:?}, reference {:?}", k, got, want));
                }
            }
            9..=10 => {
                st.op("set.prev");
                let got = t.prev(key).map(|x| **x);
                let want = m.range(..k).next_back().cloned();
                if got != want {
                    return Err(format!("set prev({}) = {:?}, reference {:?}", k, got, want));
                }
            }
            _ => {
                st.op("set.min/max/len");
                if t.min().map(|x| **x) != m.iter().next().cloned() || t.max().map(|x| **x) != m.iter().next_back().cloned() || t.len() != m.len() || t.is_empty() != m.is_empty() {
                    return Err("set min/max/len disagrees with the reference".into());
                }
            }
        }
        st.max_len = st.max_len.max(t.len() as u64);
    }
    // handed-out reference must be the very Rc that was inserted
    for k in m.iter() {
        match t.find(&pool[*k as usize]) {
            Some(r) if Rc::ptr_eq(r, &pool[*k as usize]) => {}
            _ => return Err(format!("set find({}) does not hand out the stored element", k)),
        }
    }
    st.structural_walks += 1;
    let walk: Vec<i32> = t.verif_inorder().into_iter().map(|(k, _)| **k).collect();
    if walk != m.iter().cloned().collect::<Vec<_>>() {
        return Err(format!("set in-order walk {:?} differs from the reference {:?}", walk, m));
    }
    // consuming iteration in both directions
    st.iterations += 1;
    let mut it = t.into_iter();
    let mut out = Vec::new();
    let mut back = Vec::new();
    loop {
        let remaining = m.len() - out.len() - back.len();
        if it.size_hint() != (remaining, Some(remaining)) {
            return Err(format!("set iterator size_hint {:?} with {} elements remaining", it.size_hint(), remaining));
        }
        if rng.below(2) == 0 {
            match it.next() {
                Some(x) => out.push(*x),
                None => break,
            }
        } else {
            match it.next_back() {
                Some(x) => back.push(*x),
                None => break,
            }
        }
    }
    if out.len() + back.len() != m.len() {
        return Err(format!("set iteration yielded {} elements, reference has {}", out.len() + back.len(), m.len()));
    }
    drop(it);
    let want: Vec<i32> = m.iter().cloned().collect();
    back.reverse();
    if out[..] != want[..out.len()] {
        return Err(format!("set iteration front part {:?} is not a prefix of {:?}", out, want));
    }
    if back[..] != want[want.len() - back.len()..] {
        return Err(format!("set iteration back part {:?} is not a suffix of {:?}", back, want));
    }
    for (i, p) in pool.iter().enumerate() {
        if Rc::strong_count(p) != 1 {
            return Err(format!("element {} still referenced {} times after the set was consumed and dropped", i, Rc::strong_count(p)));
        }
    }
    Ok(())
}

// ------------------------------------------------------------------------------------------
// exhaustive exploration of every reachable tree shape over a small key universe

#[derive(Clone, Copy, Debug, PartialEq, Eq)]
pub enum XOp {
    Ins(u8),
    Rem(u8),
    Get(u8),
    Next(u8),
    Prev(u8),
    Has(u8),
}

type XTree = SplayTree<u8, u32, fn(&u8, &u8) -> Ordering>;
fn u8cmp(a: &u8, b: &u8) -> Ordering {
    a.cmp(b)
}

fn xapply(t: &mut XTree, m: &mut BTreeMap<u8, u32>, op: XOp, stamp: u32) -> Result<(), String> {
    let ok = match op {
        XOp::Ins(k) => t.insert(k, stamp) == m.insert(k, stamp),
        XOp::Rem(k) => t.remove(&k) == m.remove(&k),
        XOp::Get(k) => t.get(&k) == m.get(&k),
        XOp::Has(k) => t.contains(&k) == m.contains_key(&k) && t.find_key(&k).cloned() == m.get_key_value(&k).map(|x| *x.0),
        XOp::Next(k) => t.next(&k) == m.range((Excluded(k), Unbounded)).next(),
        XOp::Prev(k) => t.prev(&k) == m.range(..k).next_back(),
    };
    if !ok {
        return Err(format!("{:?} disagrees with the reference map {:?}", op, m));
    }
    Ok(())
}

fn xshape(t: &XTree) -> Vec<u8> {
    // in-order (key, depth) pairs determine the shape
    let mut v = Vec::with_capacity(2 * t.len());
    for (k, _, d) in t.verif_inorder() {
        v.push(*k);
        v.push(d as u8);
    }
    v
}

fn xvalidate(t: &XTree, m: &BTreeMap<u8, u32>) -> Result<(), String> {
    let walk = t.verif_inorder();
    if walk.len() != t.len() || t.len() != m.len() {
        return Err(format!("walk {} / len {} / reference {}", walk.len(), t.len(), m.len()));
    }
    for ((k, v, _), (mk, mv)) in walk.iter().zip(m.iter()) {
        if *k != mk || *v != mv {
            return Err(format!("in-order content ({},{}) differs from the reference ({},{})", k, v, mk, mv));
        }
    }
    if t.min() != m.keys().next() || t.max() != m.keys().next_back() {
        return Err("min/max disagree with the reference".into());
    }
    Ok(())
}

fn xrebuild(path: &[XOp]) -> (XTree, BTreeMap<u8, u32>) {
    let mut t: XTree = SplayTree::new(u8cmp);
    let mut m = BTreeMap::new();
    for (i, &p) in path.iter().enumerate() {
        let _ = xapply(&mut t, &mut m, p, i as u32);
    }
    (t, m)
}

/// terminal operations from one shape
fn xterminal(path: &[XOp]) -> Result<u64, String> {
    let mut n = 0;
    for style in 0..5 {
        let (t, m) = xrebuild(path);
        let want: Vec<(u8, u32)> = m.iter().map(|(a, b)| (*a, *b)).collect();
        let total = want.len();
        let mut it = t.into_iter();
        let mut front = Vec::new();
        let mut back = Vec::new();
        let mut step = 0;
        loop {
            if it.size_hint() != (total - front.len() - back.len(), Some(total - front.len() - back.len())) {
                return Err(format!("size_hint {:?} with {} elements remaining", it.size_hint(), total - front.len() - back.len()));
            }
            if style == 3 && step == total / 2 {
                break; // partially consumed, then dropped
            }
            let from_back = match style {
                0 => false,
                1 => true,
                2 => step % 2 == 1,
                3 => step % 2 == 0,
                _ => step % 3 == 0,
            };
            step += 1;
            match if from_back { it.next_back() } else { it.next() } {
                Some(x) => {
                    if from_back {
                        back.push(x)
                    } else {
                        front.push(x)
                    }
                }
                None => break,
            }
        }
        drop(it);
        back.reverse();
        if front[..] != want[..front.len()] || back[..] != want[total - back.len()..] || (style != 3 && front.len() + back.len() != total) {
            return Err(format!("into_iter style {} yielded {:?} .. {:?}, reference {:?}", style, front, back, want));
        }
        n += 1;
    }
    {
        let (mut t, _) = xrebuild(path);
        t.clear();
        if t.len() != 0 || !t.verif_inorder().is_empty() || t.min().is_some() {
            return Err("clear() left elements behind".into());
        }
        t.insert(1, 1);
        if t.len() != 1 {
            return Err("insert after clear()".into());
        }
        n += 1;
    }
    {
        let (mut t, mut m) = xrebuild(path);
        let items = [(2u8, 100u32), (0, 101), (2, 102)];
        t.extend(items.iter().cloned());
        for (a, b) in items {
            m.insert(a, b);
        }
        xvalidate(&t, &m)?;
        n += 1;
    }
    Ok(n)
}

pub struct Exhaustive {
    pub shapes: u64,
    pub transitions: u64,
    pub terminal_runs: u64,
    pub max_depth: usize,
    pub sample_paths: Vec<String>,
}

/// Breadth-first over all reachable shapes for keys 1..=k (queries also with 0 and k+1, which are never
/// present). Every operation with every key from every shape is checked against the reference map.
/// `shard`/`nshards` split the *checking* work; every shard discovers all shapes.
pub fn exhaustive(k: u8, shard: u64, nshards: u64, with_terminal: bool) -> Result<Exhaustive, String> {
    let mut ops = Vec::new();
    for x in 1..=k {
        ops.push(XOp::Ins(x));
    }
    for x in 0..=k + 1 {
        ops.push(XOp::Rem(x));
        ops.push(XOp::Get(x));
        ops.push(XOp::Next(x));
        ops.push(XOp::Prev(x));
        ops.push(XOp::Has(x));
    }
    let mut seen: HashMap<Vec<u8>, Vec<XOp>> = HashMap::new();
    let mut queue: VecDeque<Vec<u8>> = VecDeque::new();
    let t0: XTree = SplayTree::new(u8cmp);
    let s0 = xshape(&t0);
    seen.insert(s0.clone(), vec![]);
    queue.push_back(s0);
    let mut res = Exhaustive { shapes: 0, transitions: 0, terminal_runs: 0, max_depth: 0, sample_paths: vec![] };
    let mut index = 0u64;
    while let Some(s) = queue.pop_front() {
        let path = seen[&s].clone();
        res.shapes += 1;
        res.max_depth = res.max_depth.max(path.len());
        let mine = index % nshards == shard;
        index += 1;
        // all replays from this shape: (operations + terminal runs) x (path + a few steps) x (worst case: whole tree per step)
        arm_splay(64 * (k as u64 + 8) * (path.len() as u64 + k as u64 + 8) * (ops.len() as u64 + 16));
        if mine && with_terminal {
            res.terminal_runs += xterminal(&path).map_err(|e| format!("from the tree reached by {:?}: {}", path, e))?;
        }
        if res.sample_paths.len() < 3 && path.len() >= 4 {
            res.sample_paths.push(format!("{:?}", path));
        }
        for &op in &ops {
            let (mut t, mut m) = xrebuild(&path);
            let r = xapply(&mut t, &mut m, op, 999);
            if mine {
                res.transitions += 1;
                r.map_err(|e| format!("from the tree reached by {:?}: {}", path, e))?;
                xvalidate(&t, &m).map_err(|e| format!("after {:?} from the tree reached by {:?}: {}", op, path, e))?;
            }
            let ns = xshape(&t);
            if !seen.contains_key(&ns) {
                let mut np = path.clone();
                np.push(op);
                seen.insert(ns.clone(), np);
                queue.push_back(ns);
            }
        }
    }
    disarm_splay();
    Ok(res)
}

// ------------------------------------------------------------------------------------------
// C18 scenarios (run in a child process; the verdict is the exit status)

pub fn c18_scenario(name: &str, n: usize) -> Result<String, String> {
    let order = |style: &str, n: usize| -> Vec<u32> {
        match style {
            "asc" => (0..n as u32).collect(),
            "desc" => (0..n as u32).rev().collect(),
            "zigzag" => (0..n as u32).map(|i| if i % 2 == 0 { i / 2 } else { n as u32 - 1 - i / 2 }).collect(),
            _ => {
                let mut rng = Rng::keyed(7, "c18", n as u64);
                let mut v: Vec<u32> = (0..n as u32).collect();
                rng.shuffle(&mut v);
                v
            }
        }
    };
    let build = |style: &str| -> SplayTree<u32, u32, fn(&u32, &u32) -> Ordering> {
        let mut t: SplayTree<u32, u32, fn(&u32, &u32) -> Ordering> = SplayTree::new(|a: &u32, b: &u32| a.cmp(b));
        for k in order(style, n) {
            t.insert(k, k);
        }
        t
    };
    let parts: Vec<&str> = name.split(':').collect();
    let style = parts.get(1).cloned().unwrap_or("asc");
    match parts[0] {
        "build-query-clear" => {
            let mut t = build(style);
            let mut found = 0usize;
            // queries in an order that differs from the insertion order
            for k in (0..n as u32).step_by(3) {
                if t.get(&k).is_some() {
                    found += 1;
                }
                let _ = t.next(&k);
                let _ = t.prev(&k);
            }
            let (mn, mx, len) = (t.min().cloned(), t.max().cloned(), t.len());
            t.clear();
            Ok(format!("found={} min={:?} max={:?} len={} after_clear={}", found, mn, mx, len, t.len()))
        }
        "build-remove" => {
            // removals at every position of a chain-shaped tree: a key near the maximum (has a successor, reached through
            // a long run of links), a key near the minimum, the middle, then everything in ascending or descending order
            let mut t = build(style);
            let n32 = n as u32;
            let mut removed = 0usize;
            for k in [n32 - 2, 1, n32 / 2, n32 - 1, 0] {
                if t.remove(&k).is_some() {
                    removed += 1;
                }
            }
            let asc = parts.get(2).cloned().unwrap_or("asc") == "asc";
            for i in 0..n32 {
                let k = if asc { i } else { n32 - 1 - i };
                if t.remove(&k).is_some() {
                    removed += 1;
                }
            }
            if removed != n || t.len() != 0 {
                return Err(format!("removed {} of {} keys, len {}", removed, n, t.len()));
            }
            Ok(format!("removed {}", removed))
        }
        "drop" => {
            let t = build(style);
            let len = t.len();
            drop(t);
            Ok(format!("dropped {}", len))
        }
        // shape:<insertion order>:<lookups>:<teardown> - teardown of trees that are neither a pure chain nor balanced:
        // a few lookups fold a chain into a spine whose nodes carry short side branches (e.g. descending insertion, then
        // one lookup of the maximum: a right spine with a left leaf on every node)
        "shape" => {
            let mut t = build(style);
            let n32 = n as u32;
            let lookups = parts.get(2).cloned().unwrap_or("none");
            let mut seen = 0usize;
            let mut touch = |t: &mut SplayTree<u32, u32, fn(&u32, &u32) -> Ordering>, k: u32| {
                if t.get(&k).is_some() {
                    seen += 1;
                }
            };
            match lookups {
                "none" => {}
                "min" => touch(&mut t, 0),
                "max" => touch(&mut t, n32 - 1),
                "mid" => touch(&mut t, n32 / 2),
                "minmax" => {
                    touch(&mut t, 0);
                    touch(&mut t, n32 - 1);
                }
                "mix" => {
                    for k in [n32 / 3, n32 - 1, 1, n32 / 2 + 1, n32 / 7, 0] {
                        touch(&mut t, k);
                    }
                }
                "nextprev" => {
                    for k in [n32 - 2, 1, n32 / 2] {
                        if t.next(&k).is_some() {
                            seen += 1;
                        }
                        if t.prev(&k).is_some() {
                            seen += 1;
                        }
                    }
                }
                "walks" => {
                    // the non-restructuring walks down the spines
                    if t.min().is_some() && t.max().is_some() {
                        seen += 2;
                    }
                }
                other => return Err(format!("unknown lookup pattern {}", other)),
            }
            let len = t.len();
            let (mn, mx) = (t.min().cloned(), t.max().cloned());
            if len != n || mn != Some(0) || mx != Some(n32 - 1) {
                return Err(format!("len {} min {:?} max {:?} for {} keys", len, mn, mx, n));
            }
            let teardown = parts.get(3).cloned().unwrap_or("drop");
            let done = match teardown {
                "drop" => {
                    drop(t);
                    len
                }
                "clear" => {
                    t.clear();
                    if t.len() != 0 || t.min().is_some() {
                        return Err("clear left elements behind".into());
                    }
                    len
                }
                "iter-partial" => {
                    let mut it = t.into_iter();
                    let a = it.next();
                    let b = it.next_back();
                    let c = it.next();
                    drop(it);
                    if a.map(|x| x.0) != Some(0) || b.map(|x| x.0) != Some(n32 - 1) || c.map(|x| x.0) != Some(1) {
                        return Err("partial iteration yielded wrong elements".into());
                    }
                    3
                }
                "iter-fwd" => {
                    let mut c = 0usize;
                    let mut expect = 0u32;
                    for (k, _) in t.into_iter() {
                        if k != expect {
                            return Err(format!("forward iteration yielded {} instead of {}", k, expect));
                        }
                        expect += 1;
                        c += 1;
                    }
                    c
                }
                "iter-bwd" => {
                    let mut it = t.into_iter();
                    let mut c = 0usize;
                    let mut expect = n32;
                    while let Some((k, _)) = it.next_back() {
                        expect -= 1;
                        if k != expect {
                            return Err(format!("backward iteration yielded {} instead of {}", k, expect));
                        }
                        c += 1;
                    }
                    c
                }
                other => return Err(format!("unknown teardown {}", other)),
            };
            Ok(format!("lookups hit {} teardown {} handled {}", seen, teardown, done))
        }
        "iter-forward" => {
            let t = build(style);
            let mut c = 0u64;
            let mut last = None;
            for (k, _) in t.into_iter() {
                if let Some(l) = last {
                    if l >= k {
                        return Err("iteration order".into());
                    }
                }
                last = Some(k);
                c += 1;
            }
            Ok(format!("iterated {}", c))
        }
        "iter-backward" => {
            let t = build(style);
            let mut it = t.into_iter();
            let mut c = 0u64;
            while it.next_back().is_some() {
                c += 1;
            }
            Ok(format!("iterated {}", c))
        }
        // consuming iteration through the iterator adaptors (any of which an implementation may override): every one of
        // them must walk a chain-shaped tree without deep recursion, and return what the element sequence implies
        "iter-adaptors" => {
            let n32 = n as u32;
            let which = parts.get(2).cloned().unwrap_or("count");
            let t = build(style);
            let ok = match which {
                "count" => t.into_iter().count() == n,
                "last" => t.into_iter().last().map(|x| x.0) == Some(n32 - 1),
                "fold" => t.into_iter().fold(0u64, |s, (k, _)| s + k as u64) == (n as u64) * (n as u64 - 1) / 2,
                "for_each" => {
                    let mut c = 0usize;
                    t.into_iter().for_each(|_| c += 1);
                    c == n
                }
                "nth" => t.into_iter().nth(n / 2).map(|x| x.0) == Some(n32 / 2),
                "rev-count" => t.into_iter().rev().count() == n,
                "rev-last" => t.into_iter().rev().last().map(|x| x.0) == Some(0),
                "rfold" => t.into_iter().rfold(0u64, |s, (k, _)| s + k as u64) == (n as u64) * (n as u64 - 1) / 2,
                "nth_back" => t.into_iter().nth_back(n / 2).map(|x| x.0) == Some(n32 - 1 - n32 / 2),
                "max" => t.into_iter().map(|x| x.0).max() == Some(n32 - 1),
                "collect" => t.into_iter().map(|x| x.0).collect::<Vec<u32>>().len() == n,
                "skip-step" => t.into_iter().skip(n / 3).step_by(7).count() == (n - n / 3 + 6) / 7,
                "len" => {
                    let it = t.into_iter();
                    it.len() == n && it.size_hint() == (n, Some(n))
                }
                other => return Err(format!("unknown adaptor {}", other)),
            };
            if !ok {
                return Err(format!("adaptor {} returned a wrong value", which));
            }
            Ok(format!("adaptor {} over {} keys", which, n))
        }
        // a tree whose VALUES are deep trees: the teardown of the outer tree drops inner trees while it is running
        // (re-entrant teardown on one thread); also a deep tree owned by a thread-local, dropped while the thread exits
        "nested" => {
            type Inner = SplayTree<u32, (), fn(&u32, &u32) -> Ordering>;
            let inner = |style: &str| -> Inner {
                let mut t: Inner = SplayTree::new(|a: &u32, b: &u32| a.cmp(b));
                for k in order(style, n) {
                    t.insert(k, ());
                }
                t
            };
            let teardown = parts.get(2).cloned().unwrap_or("drop");
            if teardown == "thread-local" {
                thread_local! {
                    static HELD: std::cell::RefCell<Option<SplayTree<u32, (), fn(&u32, &u32) -> Ordering>>> = const { std::cell::RefCell::new(None) };
                }
                let style = style.to_string();
                let h = std::thread::Builder::new()
                    .stack_size(2 * 1024 * 1024)
                    .spawn(move || {
                        let mut t: Inner = SplayTree::new(|a: &u32, b: &u32| a.cmp(b));
                        let keys: Vec<u32> = if style == "desc" { (0..n as u32).rev().collect() } else { (0..n as u32).collect() };
                        for k in keys {
                            t.insert(k, ());
                        }
                        HELD.with(|s| *s.borrow_mut() = Some(t));
                    })
                    .map_err(|e| e.to_string())?;
                h.join().map_err(|_| "thread holding a deep tree in a thread-local panicked".to_string())?;
                return Ok("deep tree dropped at thread exit".into());
            }
            let mut outer: SplayTree<u32, Inner, fn(&u32, &u32) -> Ordering> = SplayTree::new(|a: &u32, b: &u32| a.cmp(b));
            for i in 0..3u32 {
                outer.insert(i, inner(if i % 2 == 0 { style } else { "desc" }));
            }
            match teardown {
                "drop" => drop(outer),
                "clear" => outer.clear(),
                "iter-partial" => {
                    let mut it = outer.into_iter();
                    let first = it.next();
                    drop(first);
                    drop(it);
                }
                "replace" => {
                    // replacing a value drops the old inner tree from inside insert()
                    let old = outer.insert(1, inner("asc"));
                    drop(old);
                }
                other => return Err(format!("unknown teardown {}", other)),
            }
            Ok(format!("nested trees of {} keys each, teardown {}", n, teardown))
        }
        // teardown while a panic is unwinding (the tree or its consuming iterator is a live local of the panicking code),
        // and a comparator that panics on the very first comparison of a lookup (caught): no stack overflow, and after the
        // caught comparator panic the tree is still intact
        "unwind" => {
            let what = parts.get(2).cloned().unwrap_or("iter");
            let n32 = n as u32;
            match what {
                "iter" => {
                    let t = build(style);
                    let r = std::panic::catch_unwind(std::panic::AssertUnwindSafe(move || {
                        let mut seen = 0u32;
                        for (k, _) in t {
                            seen += 1;
                            if seen == 3 {
                                panic!("consumer code fails at key {}", k);
                            }
                        }
                    }));
                    if r.is_ok() {
                        return Err("the consumer panic was not propagated".into());
                    }
                    Ok("partially consumed iterator dropped while unwinding".into())
                }
                "owner" => {
                    let t = build(style);
                    let r = std::panic::catch_unwind(std::panic::AssertUnwindSafe(move || {
                        let len = t.len();
                        if len > 0 {
                            panic!("owner of a tree of {} keys fails", len);
                        }
                        drop(t);
                    }));
                    if r.is_ok() {
                        return Err("the owner panic was not propagated".into());
                    }
                    Ok("tree dropped while unwinding".into())
                }
                "set-owner-thread" => {
                    let keys = order(style, n);
                    let h = std::thread::Builder::new()
                        .stack_size(2 * 1024 * 1024)
                        .spawn(move || {
                            let mut s = SplaySet::new(|a: &u32, b: &u32| a.cmp(b));
                            for k in keys {
                                s.insert(k);
                            }
                            assert!(s.len() == 0, "worker owning a deep set fails an assertion");
                        })
                        .map_err(|e| e.to_string())?;
                    if h.join().is_ok() {
                        return Err("the worker did not panic".into());
                    }
                    Ok("deep set dropped by a panicking worker thread".into())
                }
                "cmp-first" => {
                    let armed = std::rc::Rc::new(std::cell::Cell::new(false));
                    let a2 = armed.clone();
                    let mut t = SplayTree::new(move |x: &u32, y: &u32| {
                        if a2.get() {
                            a2.set(false);
                            panic!("comparator cannot order this probe");
                        }
                        x.cmp(y)
                    });
                    for k in order(style, n) {
                        t.insert(k, k);
                    }
                    for probe in [0u32, n32 / 2, n32 - 1] {
                        armed.set(true);
                        let r = std::panic::catch_unwind(std::panic::AssertUnwindSafe(|| t.get(&probe).cloned()));
                        if r.is_ok() {
                            return Err("the comparator panic was not propagated".into());
                        }
                        armed.set(false);
                        // the panic happened before anything was restructured: the tree must be intact
                        if t.len() != n || t.get(&probe).cloned() != Some(probe) || t.min().cloned() != Some(0) || t.max().cloned() != Some(n32 - 1) {
                            return Err(format!("after a caught comparator panic (first comparison of a lookup of {}) the tree is no longer intact: len {} min {:?} max {:?}", probe, t.len(), t.min(), t.max()));
                        }
                    }
                    drop(t);
                    Ok("comparator panic on the first comparison of a lookup".into())
                }
                other => Err(format!("unknown unwind scenario {}", other)),
            }
        }
        "iter-partial-drop" => {
            let t = build(style);
            let mut it = t.into_iter();
            let a = it.next();
            let b = it.next_back();
            drop(it);
            Ok(format!("partially consumed {:?} {:?}", a, b))
        }
        "extend" => {
            let mut t: SplayTree<u32, u32, fn(&u32, &u32) -> Ordering> = SplayTree::new(|a: &u32, b: &u32| a.cmp(b));
            t.extend(order(style, n).into_iter().map(|k| (k, k)));
            let len = t.len();
            Ok(format!("extended to {}", len))
        }
        "set-drop" => {
            let mut t = SplaySet::new(|a: &u32, b: &u32| a.cmp(b));
            for k in order(style, n) {
                t.insert(k);
            }
            let len = t.len();
            drop(t);
            Ok(format!("set dropped {}", len))
        }
        "comb-intersection" | "comb-difference" | "comb-intersection-f32" | "comb-difference-f32" | "comb-corner-intersection" | "comb-corner-difference" | "comb-corner-intersection-f32" | "comb-corner-difference-f32" | "comb-stair-intersection" | "comb-stair-corner-difference" => {
            use crate::geom::Op;
            use crate::iface::{run_op, Pairing};
            let (a, b) = if parts[0].contains("stair") { crate::gen::staircase(n) } else if parts[0].contains("corner") { crate::gen::comb_corner(n) } else { crate::gen::comb(n) };
            let op = if parts[0].contains("intersection") { Op::Intersection } else { Op::Difference };
            // the difference stops early only when the small box is the subject
            let (a, b) = if op == Op::Difference && parts[0].contains("corner") { (b, a) } else { (a, b) };
            let r = if parts[0].ends_with("f32") { run_op::<f32>(&a, &b, op, Pairing::MM) } else { run_op::<f64>(&a, &b, op, Pairing::MM) };
            match r {
                Ok(mp) => Ok(format!("{} polygons", mp.len())),
                Err(f) => Err(format!("{:?}", f)),
            }
        }
        _ => Err(format!("unknown scenario {}", name)),
    }
}

pub const C18_SCENARIOS: [&str; 22] = [
    "build-remove:asc:asc",
    "build-remove:asc:desc",
    "build-remove:desc:asc",
    "build-remove:desc:desc",
    "build-remove:zigzag:asc",
    "build-remove:random:desc",
    "build-query-clear:asc",
    "build-query-clear:desc",
    "build-query-clear:zigzag",
    "build-query-clear:random",
    "drop:asc",
    "drop:desc",
    "drop:zigzag",
    "iter-forward:asc",
    "iter-forward:desc",
    "iter-backward:asc",
    "iter-backward:desc",
    "iter-partial-drop:asc",
    "iter-partial-drop:desc",
    "extend:asc",
    "set-drop:asc",
    "set-drop:desc",
];
/// insertion orders x lookup patterns x teardowns of the `shape` scenario, plus the iterator-adaptor and nested-tree scenarios
pub fn c18_shape_scenarios() -> Vec<String> {
    let mut v = Vec::new();
    for style in ["asc", "desc"] {
        for adaptor in ["count", "last", "fold", "for_each", "nth", "rev-count", "rev-last", "rfold", "nth_back", "max", "collect", "skip-step", "len"] {
            v.push(format!("iter-adaptors:{}:{}", style, adaptor));
        }
        for teardown in ["drop", "clear", "iter-partial", "replace", "thread-local"] {
            v.push(format!("nested:{}:{}", style, teardown));
        }
        for what in ["iter", "owner", "set-owner-thread", "cmp-first"] {
            v.push(format!("unwind:{}:{}", style, what));
        }
    }
    for style in ["asc", "desc", "zigzag", "random"] {
        for lookups in ["none", "min", "max", "mid", "minmax", "mix", "nextprev", "walks"] {
            for teardown in ["drop", "clear", "iter-partial", "iter-fwd", "iter-bwd"] {
                v.push(format!("shape:{}:{}:{}", style, lookups, teardown));
            }
        }
    }
    v
}
pub const C18_BOOLEAN_SCENARIOS: [&str; 10] = ["comb-stair-intersection", "comb-stair-corner-difference", "comb-intersection", "comb-difference", "comb-intersection-f32", "comb-difference-f32", "comb-corner-intersection", "comb-corner-difference", "comb-corner-intersection-f32", "comb-corner-difference-f32"];
