//! Monitors over the public sweep stages (fill_queue, subdivide) and the status structure:
//! C13 (planar subdivision), C14 (classification flags), C15 (orderings).

use crate::gen::Case;
use crate::geom::*;
use crate::iface::*;
use geo_booleanop::boolean::compare_segments::compare_segments;
use geo_booleanop::boolean::fill_queue::fill_queue;
use geo_booleanop::boolean::subdivide_segments::subdivide;
use geo_booleanop::boolean::sweep_event::{EdgeType, ResultTransition, SweepEvent};
use geo_booleanop::boolean::BooleanOp;
use geo_booleanop::boolean::BoundingBox;
use geo_booleanop::verif as hooks;
use geo_types::Coord;
use std::cmp::Ordering;
use std::collections::{BinaryHeap, HashMap, HashSet};
use std::rc::Rc;

pub type Ev<F> = Rc<SweepEvent<F>>;

pub fn pt<F: Real>(e: &SweepEvent<F>) -> Pt {
    (e.point.x.into(), e.point.y.into())
}

pub fn seg_of<F: Real>(l: &Ev<F>) -> Option<Seg> {
    l.get_other_event().map(|r| (pt(l), pt(&r)))
}

#[derive(Default, Debug, Clone)]
pub struct SweepStats {
    pub event_fans: u64,
    pub sweeps_with_an_unrelated_operation_between_the_stages: u64,
    pub sweeps: u64,
    pub complete_sweeps: u64,
    pub events: u64,
    pub subsegments: u64,
    pub pairs_planarity: u64,
    pub chains: u64,
    pub snapshots: u64,
    pub snapshot_keys: u64,
    pub max_status: u64,
    pub status_pairs: u64,
    pub status_geo_pairs: u64,
    pub flags_checked: u64,
    pub flags_skipped_unclear: u64,
    pub twins_checked: u64,
    pub prev_in_result_checked: u64,
    pub event_pairs: u64,
    pub event_triples: u64,
    pub event_spec_pairs: u64,
    pub segment_pairs: u64,
    pub segment_geo_pairs: u64,
}

impl SweepStats {
    pub fn add(&mut self, o: &SweepStats) {
        self.sweeps += o.sweeps;
        self.sweeps_with_an_unrelated_operation_between_the_stages += o.sweeps_with_an_unrelated_operation_between_the_stages;
        self.event_fans += o.event_fans;
        self.complete_sweeps += o.complete_sweeps;
        self.events += o.events;
        self.subsegments += o.subsegments;
        self.pairs_planarity += o.pairs_planarity;
        self.chains += o.chains;
        self.snapshots += o.snapshots;
        self.snapshot_keys += o.snapshot_keys;
        self.max_status = self.max_status.max(o.max_status);
        self.status_pairs += o.status_pairs;
        self.status_geo_pairs += o.status_geo_pairs;
        self.flags_checked += o.flags_checked;
        self.flags_skipped_unclear += o.flags_skipped_unclear;
        self.twins_checked += o.twins_checked;
        self.prev_in_result_checked += o.prev_in_result_checked;
        self.event_pairs += o.event_pairs;
        self.event_triples += o.event_triples;
        self.event_spec_pairs += o.event_spec_pairs;
        self.segment_pairs += o.segment_pairs;
        self.segment_geo_pairs += o.segment_geo_pairs;
    }
    pub fn to_json(&self) -> serde_json::Value {
        serde_json::json!({
            "sweeps": self.sweeps, "sweeps_with_an_unrelated_operation_between_fill_queue_and_subdivide": self.sweeps_with_an_unrelated_operation_between_the_stages,
            "complete_sweeps": self.complete_sweeps, "events": self.events, "subsegments": self.subsegments,
            "planarity_pairs": self.pairs_planarity, "edge_chains": self.chains,
            "status_snapshots": self.snapshots, "status_keys_seen": self.snapshot_keys, "max_status_size": self.max_status,
            "status_comparator_pairs": self.status_pairs, "status_geometric_pairs": self.status_geo_pairs,
            "flag_sets_checked": self.flags_checked, "flag_sets_skipped_no_clear_side_point": self.flags_skipped_unclear,
            "coincident_twins_checked": self.twins_checked, "prev_in_result_checked": self.prev_in_result_checked,
            "event_order_pairs": self.event_pairs, "event_order_triples": self.event_triples, "event_order_spec_pairs": self.event_spec_pairs,
            "segment_order_pairs": self.segment_pairs, "segment_order_geometric_pairs": self.segment_geo_pairs,
        })
    }
}

/// Geometric vertical order of two non-degenerate segments (normalised left-to-right), decided by
/// exact orientation tests at every endpoint that lies in the other's x-range:
/// Some(Less) = s is below u wherever they are vertically separated; None = not separated anywhere
/// that can be decided, or the votes disagree (the segments cross or touch).
pub fn geo_order(s: Seg, u: Seg) -> Option<Ordering> {
    let (s, u) = (norm_seg(s), norm_seg(u));
    let mut up = 0; // votes for "u above s"
    let mut down = 0;
    let s_vert = s.0 .0 == s.1 .0;
    let u_vert = u.0 .0 == u.1 .0;
    if !s_vert {
        for p in [u.0, u.1] {
            if p.0 >= s.0 .0 && p.0 <= s.1 .0 {
                match orient(s.0, s.1, p) {
                    1 => up += 1,
                    -1 => down += 1,
                    _ => {}
                }
            }
        }
    }
    if !u_vert {
        for p in [s.0, s.1] {
            if p.0 >= u.0 .0 && p.0 <= u.1 .0 {
                match orient(u.0, u.1, p) {
                    1 => down += 1,
                    -1 => up += 1,
                    _ => {}
                }
            }
        }
    }
    if s_vert && u_vert && s.0 .0 == u.0 .0 {
        if s.1 .1 < u.0 .1 {
            up += 1
        } else if u.1 .1 < s.0 .1 {
            down += 1
        }
    }
    if up > 0 && down == 0 {
        Some(Ordering::Less)
    } else if down > 0 && up == 0 {
        Some(Ordering::Greater)
    } else {
        None
    }
}

/// sweep lifetimes (left point .. right point, lexicographic) overlap in more than a point
pub fn lifetimes_overlap(s: Seg, u: Seg) -> bool {
    let (s, u) = (norm_seg(s), norm_seg(u));
    lex_lt(lex_max(s.0, u.0), lex_min(s.1, u.1))
}

pub struct SweepRun<F: Real> {
    /// everything popped by subdivide, in pop order
    pub events: Vec<Ev<F>>,
    /// events still queued when the sweep stopped early (kept alive: links are weak)
    pub rest: Vec<Ev<F>>,
    pub complete: bool,
    pub queue_len_after_fill: usize,
    pub sbbox: (Pt, Pt),
    pub cbbox: (Pt, Pt),
    /// segments of the filled queue before subdivision: (segment, is_subject)
    pub initial: Vec<(Seg, bool)>,
    /// first failure reported by the status observer
    pub status_failure: Option<String>,
}

fn inf_box<F: Real>() -> BoundingBox<F> {
    BoundingBox {
        min: Coord { x: F::infinity(), y: F::infinity() },
        max: Coord { x: F::neg_infinity(), y: F::neg_infinity() },
    }
}

fn wbox<F: Real>(b: &BoundingBox<F>) -> (Pt, Pt) {
    ((b.min.x.into(), b.min.y.into()), (b.max.x.into(), b.max.y.into()))
}

/// Status invariant at the quiescent point between two events (C13).
fn check_status<F: Real>(event: &Ev<F>, status: &[Ev<F>], exact_geo: bool, st: &mut SweepStats) -> Result<(), String> {
    st.snapshots += 1;
    st.snapshot_keys += status.len() as u64;
    st.max_status = st.max_status.max(status.len() as u64);
    let cur = pt(event);
    let mut segs: Vec<Seg> = Vec::with_capacity(status.len());
    for k in status {
        if !k.is_left() {
            return Err(format!("status contains a right event at {:?}", pt(k)));
        }
        let s = match seg_of(k) {
            Some(s) => s,
            None => return Err(format!("status contains an event without partner at {:?}", pt(k))),
        };
        // lifetime by point: left <= current <= right (lexicographic)
        if !(lex_le(s.0, cur) && lex_le(cur, s.1)) {
            return Err(format!("status segment {:?}-{:?} is not alive at the current event point {:?}", s.0, s.1, cur));
        }
        segs.push(s);
    }
    for i in 0..status.len() {
        for j in i + 1..status.len() {
            st.status_pairs += 1;
            let c1 = compare_segments(&status[i], &status[j]);
            let c2 = compare_segments(&status[j], &status[i]);
            if c1 != Ordering::Less || c2 != Ordering::Greater {
                return Err(format!(
                    "status order inconsistent with the comparator: position {} {:?}-{:?} vs position {} {:?}-{:?}: cmp={:?} reverse={:?} (at event {:?})",
                    i, segs[i].0, segs[i].1, j, segs[j].0, segs[j].1, c1, c2, cur
                ));
            }
            if exact_geo {
                if let Some(g) = geo_order(segs[i], segs[j]) {
                    st.status_geo_pairs += 1;
                    if g != Ordering::Less {
                        return Err(format!(
                            "status order contradicts the geometry: {:?}-{:?} is stored below {:?}-{:?} but lies above it (at event {:?})",
                            segs[i].0, segs[i].1, segs[j].0, segs[j].1, cur
                        ));
                    }
                }
            }
        }
    }
    Ok(())
}

/// Run fill_queue + subdivide through their public interfaces, optionally with the status observer.
pub fn run_sweep<F: Real>(a: &MP, b: &MP, op: Op, observe: bool, exact_geo: bool, st: &mut SweepStats) -> Result<SweepRun<F>, Failure> {
    let ga = to_geo::<F>(a);
    let gb = to_geo::<F>(b);
    let n = edge_count(a) + edge_count(b);
    let lop = lib_op(op);
    let mut status_failure: Option<String> = None;
    let mut local = SweepStats::default();
    let interleave = st.sweeps % 2 == 1;
    let mut interleaved_polygons = 0usize;
    let res = guarded(n + 16, || {
        let mut sbbox = inf_box::<F>();
        let mut cbbox = inf_box::<F>();
        let mut queue: BinaryHeap<Ev<F>> = fill_queue(&ga.0, &gb.0, &mut sbbox, &mut cbbox, lop);
        let queue_len_after_fill = queue.len();
        if interleave {
            // the stages are separate public functions: whatever else the thread computes between them (here a complete,
            // unrelated operation with crossings, i.e. with its own queue, divisions and status structure) must not
            // matter to the sweep of the first queue
            let sq = |x0: f64, y0: f64, w: f64| -> geo_types::Polygon<F> {
                let c = |x: f64, y: f64| Coord { x: F::from64(x), y: F::from64(y) };
                geo_types::Polygon::new(geo_types::LineString(vec![c(x0, y0), c(x0 + w, y0), c(x0 + w, y0 + w), c(x0, y0 + w), c(x0, y0)]), vec![])
            };
            let other = geo_types::MultiPolygon(vec![sq(0.0, 0.0, 4.0), sq(10.0, 1.0, 2.0)]).boolean(&geo_types::MultiPolygon(vec![sq(2.0, 1.0, 4.0), sq(9.0, 0.0, 2.0)]), geo_booleanop::boolean::Operation::Xor);
            interleaved_polygons = other.0.len();
        }
        let mut initial = Vec::new();
        for e in queue.iter() {
            if e.is_left() {
                if let Some(s) = seg_of(e) {
                    initial.push((s, e.is_subject));
                }
            }
        }
        let events = if observe {
            let mut obs = |event: &Ev<F>, status: &[Ev<F>]| {
                if status_failure.is_none() {
                    if let Err(m) = check_status(event, status, exact_geo, &mut local) {
                        status_failure = Some(m);
                    }
                }
            };
            hooks::with_status_observer::<F, _>(&mut obs, || subdivide(&mut queue, &sbbox, &cbbox, lop))
        } else {
            subdivide(&mut queue, &sbbox, &cbbox, lop)
        };
        let complete = queue.is_empty();
        let rest: Vec<Ev<F>> = queue.into_vec();
        (events, rest, complete, queue_len_after_fill, wbox(&sbbox), wbox(&cbbox), initial)
    });
    st.add(&local);
    let (events, rest, complete, queue_len_after_fill, sbbox, cbbox, initial) = res?;
    st.sweeps += 1;
    if interleave {
        st.sweeps_with_an_unrelated_operation_between_the_stages += 1;
        if interleaved_polygons == 0 {
            return Err(Failure::Panic("the interleaved unrelated operation returned nothing".into()));
        }
    }
    if complete {
        st.complete_sweeps += 1;
    }
    st.events += events.len() as u64;
    Ok(SweepRun { events, rest, complete, queue_len_after_fill, sbbox, cbbox, initial, status_failure })
}

fn vertex_box(mp: &MP) -> (Pt, Pt) {
    match bbox(mp) {
        Some(b) => b,
        None => ((f64::INFINITY, f64::INFINITY), (f64::NEG_INFINITY, f64::NEG_INFINITY)),
    }
}

/// final sub-segments: left events among the processed events whose right event was processed too
pub fn final_subsegments<F: Real>(run: &SweepRun<F>) -> Vec<(Ev<F>, Ev<F>)> {
    let processed: HashSet<*const SweepEvent<F>> = run.events.iter().map(|e| Rc::as_ptr(e)).collect();
    let mut out = Vec::new();
    // when the sweep stopped early the last popped event was not processed
    let upto = if run.complete { run.events.len() } else { run.events.len().saturating_sub(1) };
    let really: HashSet<*const SweepEvent<F>> = run.events[..upto].iter().map(|e| Rc::as_ptr(e)).collect();
    for l in &run.events[..upto] {
        if l.is_left() {
            if let Some(r) = l.get_other_event() {
                if really.contains(&Rc::as_ptr(&r)) {
                    out.push((l.clone(), r));
                }
            }
        }
    }
    let _ = processed;
    out
}

/// C13: queue filling and planar subdivision.
pub fn check_c13<F: Real>(_case: &Case, a: &MP, b: &MP, run: &SweepRun<F>, tol: f64, st: &mut SweepStats) -> Result<(), String> {
    if let Some(m) = &run.status_failure {
        return Err(m.clone());
    }
    // --- queue filling
    let ea = segs_of(a);
    let eb = segs_of(b);
    if run.queue_len_after_fill != 2 * (ea.len() + eb.len()) {
        return Err(format!("fill_queue produced {} events for {} non-degenerate input edges", run.queue_len_after_fill, ea.len() + eb.len()));
    }
    if run.sbbox != vertex_box(a) {
        return Err(format!("subject bounding box {:?} differs from the exact vertex box {:?}", run.sbbox, vertex_box(a)));
    }
    if run.cbbox != vertex_box(b) {
        return Err(format!("clipping bounding box {:?} differs from the exact vertex box {:?}", run.cbbox, vertex_box(b)));
    }
    let key = |s: Seg, subj: bool| {
        let s = norm_seg(s);
        (s.0 .0.to_bits(), s.0 .1.to_bits(), s.1 .0.to_bits(), s.1 .1.to_bits(), subj)
    };
    let mut want: HashMap<_, i64> = HashMap::new();
    for s in &ea {
        *want.entry(key(*s, true)).or_insert(0) += 1;
    }
    for s in &eb {
        *want.entry(key(*s, false)).or_insert(0) += 1;
    }
    for (s, subj) in &run.initial {
        *want.entry(key(*s, *subj)).or_insert(0) -= 1;
    }
    if let Some((k, v)) = want.iter().find(|(_, v)| **v != 0) {
        return Err(format!("queued segments differ from the input edges: segment bits {:?} count difference {}", k, v));
    }
    // --- links of every processed left event
    let all_events: Vec<&Ev<F>> = run.events.iter().collect();
    for l in all_events.iter().filter(|e| e.is_left()) {
        let r = match l.get_other_event() {
            Some(r) => r,
            None => return Err(format!("left event at {:?} has no partner", pt(l))),
        };
        let back = r.get_other_event().map(|x| Rc::ptr_eq(&x, l)).unwrap_or(false);
        if !back {
            return Err(format!("partner of the left event at {:?} does not link back to it", pt(l)));
        }
        if r.is_left() {
            return Err(format!("partner of the left event at {:?} is a left event too ({:?})", pt(l), pt(&r)));
        }
        if l.point == r.point {
            return Err(format!("zero-length sub-segment at {:?}", pt(l)));
        }
        if (*l).cmp(&r) != Ordering::Greater {
            return Err(format!("left event {:?} is not before its right event {:?} in sweep order", pt(l), pt(&r)));
        }
        if !lex_lt(pt(l), pt(&r)) {
            return Err(format!("left event {:?} is not lexicographically before its right event {:?}", pt(l), pt(&r)));
        }
    }
    // --- planarity of final sub-segments
    let subs = final_subsegments(run);
    st.subsegments += subs.len() as u64;
    let segs: Vec<(Seg, bool)> = subs.iter().map(|(l, r)| ((pt(l), pt(r)), l.is_subject)).collect();
    if segs.len() <= 600 {
        // sort by left x to prune pairs with disjoint x-ranges
        let mut order: Vec<usize> = (0..segs.len()).collect();
        order.sort_by(|&i, &j| segs[i].0 .0 .0.partial_cmp(&segs[j].0 .0 .0).unwrap());
        for ii in 0..order.len() {
            let i = order[ii];
            for &j in order.iter().skip(ii + 1) {
                if segs[j].0 .0 .0 > segs[i].0 .1 .0 {
                    break;
                }
                st.pairs_planarity += 1;
                let rel = seg_rel(segs[i].0, segs[j].0);
                let ok = match rel {
                    Rel::Disjoint | Rel::SharedVertex => true,
                    Rel::Identical => segs[i].1 != segs[j].1,
                    _ => false,
                };
                if !ok {
                    return Err(format!(
                        "final sub-segments {:?}-{:?} ({}) and {:?}-{:?} ({}) are in relation {:?}",
                        segs[i].0 .0,
                        segs[i].0 .1,
                        if segs[i].1 { "subject" } else { "clipping" },
                        segs[j].0 .0,
                        segs[j].0 .1,
                        if segs[j].1 { "subject" } else { "clipping" },
                        rel
                    ));
                }
            }
        }
    }
    // --- every input edge is covered exactly by a chain of its sub-segments (complete sweeps only):
    //     walk from the edge's left endpoint along sub-segments of the same operand that start bit-exactly where
    //     the previous one ended and stay on the edge, until the right endpoint is reached bit-exactly
    if run.complete {
        let mut by_left: HashMap<(u64, u64, bool), Vec<usize>> = HashMap::new();
        for (i, (s, subj)) in segs.iter().enumerate() {
            by_left.entry((s.0 .0.to_bits(), s.0 .1.to_bits(), *subj)).or_default().push(i);
        }
        for (edges, subj) in [(&ea, true), (&eb, false)] {
            for e in edges.iter() {
                let e = norm_seg(*e);
                st.chains += 1;
                // depth-first with backtracking: at a thin spike two sub-segments of different edges of the same
                // operand can start at the same vertex within the tolerance of this edge
                let next_of = |cur: Pt| -> Vec<Pt> {
                    let mut v: Vec<Pt> = by_left
                        .get(&(cur.0.to_bits(), cur.1.to_bits(), subj))
                        .map(|v| {
                            v.iter()
                                .map(|&i| segs[i].0 .1)
                                .filter(|&q| {
                                    let on = if tol == 0.0 { on_seg(e, q) } else { dist_pt_seg(q, e) <= tol && param_on(e, q) > param_on(e, cur) && param_on(e, q) <= 1.0 + 1e-6 };
                                    on && lex_lt(cur, q)
                                })
                                .collect()
                        })
                        .unwrap_or_default();
                    v.sort_by(|a, b| dist_pt_seg(*a, e).partial_cmp(&dist_pt_seg(*b, e)).unwrap());
                    v.dedup();
                    v
                };
                let mut stack: Vec<(Pt, Vec<Pt>, usize)> = vec![(e.0, next_of(e.0), 0)];
                let mut reached = false;
                let mut visited = 0usize;
                let mut deepest: Vec<Pt> = vec![e.0];
                while let Some((cur, cands, k)) = stack.pop() {
                    if cur == e.1 {
                        reached = true;
                        break;
                    }
                    visited += 1;
                    if visited > 20_000 {
                        break;
                    }
                    if k < cands.len() {
                        let q = cands[k];
                        stack.push((cur, cands, k + 1));
                        let nq = next_of(q);
                        stack.push((q, nq, 0));
                        if stack.len() > deepest.len() {
                            deepest = stack.iter().map(|x| x.0).collect();
                        }
                    }
                }
                if !reached {
                    return Err(format!(
                        "sub-segments of the {} edge {:?}-{:?} do not chain from its start to its end: longest chain found {:?}",
                        if subj { "subject" } else { "clipping" },
                        e.0,
                        e.1,
                        deepest
                    ));
                }
            }
        }
    }
    Ok(())
}

// ------------------------------------------------------------------------------------------
// C14

fn side_points(s: Seg, input_segs: &[Seg], clear: f64, tol: f64) -> Option<(Pt, Pt)> {
    // "above" = left of the direction left endpoint -> right endpoint (for a vertical segment: its left side)
    let (dx, dy) = (s.1 .0 - s.0 .0, s.1 .1 - s.0 .1);
    let len = (dx * dx + dy * dy).sqrt();
    if len <= 8.0 * clear {
        return None;
    }
    let (nx, ny) = (-dy / len, dx / len);
    // carriers: input edges on which this sub-segment lies. With a tolerance, a second edge leaving the same vertex at
    // a very small angle (thin spike) can also be within the tolerance of both endpoints: only edges about as close as
    // the closest one count (coincident edges of the two operands are equally close).
    let dist_to = |t: &Seg| dist_pt_seg(s.0, *t).max(dist_pt_seg(s.1, *t));
    let d_min = input_segs.iter().map(|t| dist_to(t)).fold(f64::INFINITY, f64::min);
    let is_carrier = |t: &Seg| if tol == 0.0 { on_seg(*t, s.0) && on_seg(*t, s.1) } else { dist_to(t) <= tol.min(16.0 * d_min + tol * 1e-3) };
    let others: Vec<Seg> = input_segs.iter().filter(|t| !is_carrier(t)).cloned().collect();
    for frac in [0.3125, 0.5, 0.6875, 0.2, 0.8] {
        let m = (s.0 .0 + frac * dx, s.0 .1 + frac * dy);
        let mut delta = len * 0.0625;
        while delta > 2.0 * clear {
            let above = (m.0 + delta * nx, m.1 + delta * ny);
            let below = (m.0 - delta * nx, m.1 - delta * ny);
            // both points clear of every other input edge, and no other input edge meets the probe between them
            let mut ok = true;
            for t in &others {
                if dist_pt_seg(above, *t) <= clear || dist_pt_seg(below, *t) <= clear || seg_rel((below, above), *t) != Rel::Disjoint {
                    ok = false;
                    break;
                }
            }
            if ok {
                return Some((above, below));
            }
            delta *= 0.25;
        }
    }
    None
}

pub fn check_c14<F: Real>(case: &Case, a: &MP, b: &MP, op: Op, run: &SweepRun<F>, tol: f64, st: &mut SweepStats) -> Result<(), String> {
    let scale = case.scale();
    let clear = clearance(tol, scale);
    let mut input_segs = segs_of(a);
    input_segs.extend(segs_of(b));
    let subs = final_subsegments(run);
    // index coincident sub-segments
    let key = |s: Seg| (s.0 .0.to_bits(), s.0 .1.to_bits(), s.1 .0.to_bits(), s.1 .1.to_bits());
    let mut by_geom: HashMap<_, Vec<usize>> = HashMap::new();
    for (i, (l, r)) in subs.iter().enumerate() {
        by_geom.entry(key((pt(l), pt(r)))).or_default().push(i);
    }
    for (l, r) in &subs {
        let s = (pt(l), pt(r));
        let (above, below) = match side_points(s, &input_segs, clear, tol) {
            Some(v) => v,
            None => {
                st.flags_skipped_unclear += 1;
                continue;
            }
        };
        let ina = |p: Pt| in_evenodd(a, p.0, p.1);
        let inb = |p: Pt| in_evenodd(b, p.0, p.1);
        let (own_above, own_below, oth_above, oth_below) = if l.is_subject { (ina(above), ina(below), inb(above), inb(below)) } else { (inb(above), inb(below), ina(above), ina(below)) };
        let desc = || format!("sub-segment {:?}-{:?} ({})", s.0, s.1, if l.is_subject { "subject" } else { "clipping" });
        if own_above == own_below {
            // not a boundary of its own operand according to the oracle: only possible for self-overlapping input
            return Err(format!("{} is not a boundary of its own operand (oracle: inside above={} below={})", desc(), own_above, own_below));
        }
        st.flags_checked += 1;
        if l.is_in_out() != (own_below && !own_above) {
            return Err(format!("{}: in_out={} but the own operand is inside below={} above={}", desc(), l.is_in_out(), own_below, own_above));
        }
        let (res_above, res_below) = if l.is_subject { (op.apply(own_above, oth_above), op.apply(own_below, oth_below)) } else { (op.apply(oth_above, own_above), op.apply(oth_below, own_below)) };
        let twin_geom = oth_above != oth_below;
        let twins: Vec<usize> = by_geom[&key(s)].iter().cloned().filter(|&i| !Rc::ptr_eq(&subs[i].0, l)).collect();
        if !twin_geom {
            if !twins.is_empty() {
                return Err(format!("{} has a coincident sub-segment although the other operand does not change across it", desc()));
            }
            if l.get_edge_type() != EdgeType::Normal {
                return Err(format!("{}: edge type {:?} but no coincident edge of the other operand", desc(), l.get_edge_type()));
            }
            if l.is_other_in_out() != !oth_above {
                return Err(format!("{}: other_in_out={} but the other operand is inside there = {}", desc(), l.is_other_in_out(), oth_above));
            }
            if l.is_in_result() != (res_above != res_below) {
                return Err(format!("{}: in_result={} but {} is {} above and {} below", desc(), l.is_in_result(), op.name(), res_above, res_below));
            }
            if res_above != res_below {
                let want = if res_above { ResultTransition::OutIn } else { ResultTransition::InOut };
                if l.get_result_transition() != want {
                    return Err(format!("{}: result transition {:?}, expected {:?}", desc(), l.get_result_transition(), want));
                }
            }
        } else {
            st.twins_checked += 1;
            if twins.len() != 1 {
                return Err(format!("{}: the other operand changes across it, expected exactly one coincident sub-segment, found {}", desc(), twins.len()));
            }
            let l2 = &subs[twins[0]].0;
            if l2.is_subject == l.is_subject {
                return Err(format!("{}: coincident sub-segment belongs to the same operand", desc()));
            }
            let cnt = l.is_in_result() as u32 + l2.is_in_result() as u32;
            let want_cnt = if res_above != res_below { 1 } else { 0 };
            if cnt != want_cnt {
                return Err(format!("{}: {} of the two coincident sub-segments are in the result, expected {} ({} is {} above, {} below)", desc(), cnt, want_cnt, op.name(), res_above, res_below));
            }
            if l.is_in_result() {
                let want = if res_above { ResultTransition::OutIn } else { ResultTransition::InOut };
                if l.get_result_transition() != want {
                    return Err(format!("{} (carrier of a coincident pair): result transition {:?}, expected {:?}", desc(), l.get_result_transition(), want));
                }
            }
        }
        if let Some(p) = l.get_prev_in_result() {
            st.prev_in_result_checked += 1;
            if !p.is_in_result() {
                return Err(format!("{}: prev_in_result {:?} is not a result edge", desc(), pt(&p)));
            }
            if !p.is_left() {
                return Err(format!("{}: prev_in_result {:?} is a right event", desc(), pt(&p)));
            }
            if let Some(ps) = seg_of(&p) {
                // a vertical edge has no abscissa interval in common with the interior of any segment, so it is never
                // "the result edge below" a point of this sub-segment (the library skips it and inherits its lower edge)
                if ps.0 .0 == ps.1 .0 {
                    return Err(format!("{}: the recorded lower result edge {:?}-{:?} is vertical, i.e. not below any interior point of the sub-segment", desc(), ps.0, ps.1));
                }
                // "not above where the x-ranges overlap"
                if let Some(g) = geo_order(ps, s) {
                    if g == Ordering::Greater {
                        return Err(format!("{}: prev_in_result {:?}-{:?} lies above it", desc(), ps.0, ps.1));
                    }
                }
            }
        }
    }
    Ok(())
}

// ------------------------------------------------------------------------------------------
// C15

/// The specified event order, evaluated independently: Some(true) if a must be processed before b.
fn spec_before<F: Real>(a: &Ev<F>, b: &Ev<F>) -> Option<bool> {
    let (pa, pb) = (pt(a), pt(b));
    if pa != pb {
        return Some(lex_lt(pa, pb));
    }
    if a.is_left() != b.is_left() {
        return Some(!a.is_left()); // right before left
    }
    let (oa, ob) = (a.get_other_event()?, b.get_other_event()?);
    let (qa, qb) = (pt(&oa), pt(&ob));
    // a's segment oriented from its left to its right endpoint
    let (la, ra) = if a.is_left() { (pa, qa) } else { (qa, pa) };
    match orient(la, ra, qb) {
        1 => Some(true),   // b's other endpoint is above a's segment: a is the lower one and comes first
        -1 => Some(false), // below
        _ => {
            if a.is_subject != b.is_subject {
                Some(a.is_subject) // collinear: subject first
            } else {
                None
            }
        }
    }
}

pub fn check_event_order<F: Real>(events: &[Ev<F>], st: &mut SweepStats, rng: &mut crate::util::Rng) -> Result<(), String> {
    let n = events.len();
    if n > 1500 {
        return Ok(());
    }
    // matrix of comparisons
    let mut m = vec![Ordering::Equal; n * n];
    for i in 0..n {
        for j in 0..n {
            if i != j {
                m[i * n + j] = events[i].cmp(&events[j]);
            }
        }
    }
    for i in 0..n {
        for j in i + 1..n {
            st.event_pairs += 1;
            let (c1, c2) = (m[i * n + j], m[j * n + i]);
            let d = || format!("events {:?} ({}) and {:?} ({})", pt(&events[i]), if events[i].is_left() { "L" } else { "R" }, pt(&events[j]), if events[j].is_left() { "L" } else { "R" });
            if c1 == Ordering::Equal || c2 == Ordering::Equal {
                return Err(format!("event order returns Equal for two distinct {}", d()));
            }
            if c1 != c2.reverse() {
                return Err(format!("event order is not antisymmetric for {}: {:?} / {:?}", d(), c1, c2));
            }
            if let Some(before) = spec_before(&events[i], &events[j]) {
                st.event_spec_pairs += 1;
                // "before" in processing order = Greater in Ord (max-heap)
                if (c1 == Ordering::Greater) != before {
                    return Err(format!("event order contradicts the specified order for {}: cmp={:?}, specified first={}", d(), c1, if before { "first argument" } else { "second argument" }));
                }
            }
        }
    }
    // transitivity
    let check_triple = |i: usize, j: usize, k: usize| -> bool { !(m[i * n + j] == Ordering::Less && m[j * n + k] == Ordering::Less && m[i * n + k] != Ordering::Less) };
    if n <= 120 {
        for i in 0..n {
            for j in 0..n {
                if i == j || m[i * n + j] != Ordering::Less {
                    continue;
                }
                for k in 0..n {
                    if k == i || k == j {
                        continue;
                    }
                    st.event_triples += 1;
                    if !check_triple(i, j, k) {
                        return Err(format!("event order is not transitive on {:?} < {:?} < {:?}", pt(&events[i]), pt(&events[j]), pt(&events[k])));
                    }
                }
            }
        }
    } else {
        for _ in 0..100_000 {
            let (i, j, k) = (rng.below(n as u64) as usize, rng.below(n as u64) as usize, rng.below(n as u64) as usize);
            if i == j || j == k || i == k {
                continue;
            }
            st.event_triples += 1;
            if !check_triple(i, j, k) {
                return Err(format!("event order is not transitive on {:?} < {:?} < {:?}", pt(&events[i]), pt(&events[j]), pt(&events[k])));
            }
        }
    }
    Ok(())
}

pub fn check_segment_order<F: Real>(lefts: &[Ev<F>], st: &mut SweepStats) -> Result<(), String> {
    let segs: Vec<Seg> = lefts.iter().map(|l| seg_of(l).unwrap()).collect();
    let n = lefts.len();
    if n > 1200 {
        return Ok(());
    }
    for i in 0..n {
        for j in i + 1..n {
            if !lifetimes_overlap(segs[i], segs[j]) {
                continue;
            }
            st.segment_pairs += 1;
            let c1 = compare_segments(&lefts[i], &lefts[j]);
            let c2 = compare_segments(&lefts[j], &lefts[i]);
            let d = || format!("segments {:?}-{:?} and {:?}-{:?}", segs[i].0, segs[i].1, segs[j].0, segs[j].1);
            if c1 == Ordering::Equal || c2 == Ordering::Equal {
                return Err(format!("segment order returns Equal for two distinct {}", d()));
            }
            if c1 != c2.reverse() {
                return Err(format!("segment order is not antisymmetric for {}: {:?} / {:?}", d(), c1, c2));
            }
            match seg_rel(segs[i], segs[j]) {
                Rel::Disjoint | Rel::SharedVertex => {
                    if let Some(g) = geo_order(segs[i], segs[j]) {
                        st.segment_geo_pairs += 1;
                        if g != c1 {
                            return Err(format!("segment order contradicts the vertical order of {}: cmp={:?}, geometry={:?}", d(), c1, g));
                        }
                    }
                }
                _ => {}
            }
        }
    }
    // identity
    for l in lefts.iter().take(50) {
        if compare_segments(l, l) != Ordering::Equal {
            return Err(format!("segment order does not return Equal for the identical segment at {:?}", pt(l)));
        }
    }
    Ok(())
}

/// C15 on one operand pair: before subdivision (drained fill_queue) and after it.
pub fn check_c15<F: Real>(a: &MP, b: &MP, op: Op, run: &SweepRun<F>, st: &mut SweepStats, rng: &mut crate::util::Rng) -> Result<(), String> {
    // before subdivision: a fresh queue, drained
    let ga = to_geo::<F>(a);
    let gb = to_geo::<F>(b);
    let mut sb = inf_box::<F>();
    let mut cb = inf_box::<F>();
    let queue = fill_queue(&ga.0, &gb.0, &mut sb, &mut cb, lib_op(op));
    let fresh: Vec<Ev<F>> = queue.into_vec();
    check_event_order(&fresh, st, rng).map_err(|m| format!("before subdivision: {}", m))?;
    let lefts: Vec<Ev<F>> = fresh.iter().filter(|e| e.is_left()).cloned().collect();
    check_segment_order(&lefts, st).map_err(|m| format!("before subdivision: {}", m))?;
    // after subdivision
    let mut all: Vec<Ev<F>> = run.events.clone();
    all.extend(run.rest.iter().cloned());
    check_event_order(&all, st, rng).map_err(|m| format!("after subdivision: {}", m))?;
    let subs = final_subsegments(run);
    let lefts: Vec<Ev<F>> = subs.iter().map(|(l, _)| l.clone()).collect();
    check_segment_order(&lefts, st).map_err(|m| format!("after subdivision: {}", m))?;
    Ok(())
}

// ------------------------------------------------------------------------------------------
// C15 at pair level: segment order on constructed pairs, including T contacts whose contact point is exactly on the
// older segment while the floating-point intersection is not exact

fn mk_left<F: Real>(s: Seg, subj: bool, id: u32) -> (Ev<F>, Ev<F>) {
    let s = norm_seg(s);
    let c = |p: Pt| Coord { x: F::from64(p.0), y: F::from64(p.1) };
    let right = SweepEvent::new_rc(id as _, c(s.1), false, std::rc::Weak::new(), subj, true);
    let left = SweepEvent::new_rc(id as _, c(s.0), true, Rc::downgrade(&right), subj, true);
    right.set_other_event(&left);
    (left, right)
}

/// one constructed pair: returns Err on a violation; counts what was compared
pub fn check_segment_pair(rng: &mut crate::util::Rng, st: &mut SweepStats) -> Result<(), String> {
    if rng.below(3) == 0 {
        // mixed magnitudes: points (t, k*t) on a line through the origin are exactly collinear for dyadic t and a
        // small integer k, but differences and products of such coordinates round, so the library's computed
        // intersection point is not exact
        let k = rng.range(-12, 12) as f64;
        let tiny = [2.0f64.powi(-50), 2.0f64.powi(-30), 2.0f64.powi(-44), 0.0][rng.below(4) as usize];
        let t0 = -tiny - [0.0, 0.0, 1.0, 0.125][rng.below(4) as usize];
        let t1 = [1.0, 3.0, 0.75, 17.0][rng.below(4) as usize] + [0.0, tiny][rng.below(2) as usize];
        let tm = [0.5, 0.25, 2.0f64.powi(-20), 0.625, tiny * 3.0][rng.below(5) as usize];
        if !(t0 < tm && tm < t1) {
            return Ok(());
        }
        let pt_on = |t: f64| (t, k * t);
        let old = (pt_on(t0), pt_on(t1));
        let start = pt_on(tm);
        // the products k*t must be exact, otherwise the three points are only nearly collinear (a nearly collinear
        // overlap is outside the robust domains): verify with the exact predicate
        if [old.0, old.1, start].iter().any(|p| orient((0.0, 0.0), (1.0, k), *p) != 0) {
            return Ok(());
        }
        let end = (start.0 + [1.0, 0.5, 7.0, 2.0f64.powi(-10)][rng.below(4) as usize], start.1 + (rng.range(-2000, 2000) as f64) / 64.0);
        let new = (start, end);
        return check_one_pair(old, new, rng.below(2) == 0, rng.below(2) == 0, st);
    }
    // old segment through lattice points a + k*d, k = 0..m; everything scaled by a power of two (exact)
    let r = [7i64, 60, 5000, 3_000_000][rng.below(4) as usize];
    let d = (rng.range(1, r), rng.range(-r, r));
    let m = rng.range(2, 9);
    let a = (rng.range(-r, r), rng.range(-r, r));
    let scale = (2.0f64).powi([0, 0, -50, 20, -3][rng.below(5) as usize]);
    let f = |p: (i64, i64)| (p.0 as f64 * scale, p.1 as f64 * scale);
    let old = (f(a), f((a.0 + m * d.0, a.1 + m * d.1)));
    let kind = rng.below(4);
    let start = match kind {
        0 | 1 => {
            // exactly on the old segment's interior
            let j = rng.range(1, m - 1);
            (a.0 + j * d.0, a.1 + j * d.1)
        }
        2 => a, // shared left endpoint
        _ => (a.0 + rng.range(0, m * d.0), a.1 + rng.range(-r, r)),
    };
    let mut end = (start.0 + rng.range(0, r), start.1 + rng.range(-r, r));
    if end == start {
        end.0 += 1;
    }
    let new = (f(start), f(end));
    if new.0 == new.1 || lex_lt(new.1, new.0) {
        return Ok(());
    }
    check_one_pair(old, new, rng.below(2) == 0, rng.below(2) == 0, st)
}

/// A fan of events at one vertex whose segments are *nearly* collinear: P and a direction d have short decimal
/// coordinates, the other endpoints are P + t*d evaluated in floating point, so they are collinear "in decimal" but
/// (usually) not in binary - the exact orientation is a few ulps, while naive cross products often cancel to zero.
/// The event order must still follow the exact angular rule, be antisymmetric and transitive. Truly collinear draws fall
/// under the subject-first clause or are skipped by the oracle.
pub fn check_event_fan(rng: &mut crate::util::Rng, st: &mut SweepStats) -> Result<(), String> {
    let dec = |rng: &mut crate::util::Rng, lo: i64, hi: i64| rng.range(lo, hi) as f64 / 10.0;
    let p = (dec(rng, -200, 200), dec(rng, -200, 200));
    let d = (dec(rng, 1, 99), dec(rng, -99, 99));
    let scale = [1.0, 1.0, 1e3, 1e-3, 0.7][rng.below(5) as usize];
    let p = (p.0 * scale, p.1 * scale);
    let d = (d.0 * scale, d.1 * scale);
    let n = rng.range(2, 5) as usize;
    let mut evs: Vec<Ev<f64>> = Vec::new();
    let mut keep: Vec<(Ev<f64>, Ev<f64>)> = Vec::new();
    let mut used: Vec<Pt> = Vec::new();
    for i in 0..n {
        let mut t = rng.range(1, 12) as f64;
        if rng.below(3) == 0 {
            t = -t;
        }
        // some members of the fan in clearly different directions
        let q = if rng.below(4) == 0 { (p.0 + t * d.0, p.1 + t * d.1 + dec(rng, -30, 30) * scale) } else { (p.0 + t * d.0, p.1 + t * d.1) };
        if q == p || used.contains(&q) {
            continue;
        }
        used.push(q);
        let (l, r) = mk_left::<f64>((p, q), rng.below(2) == 0, i as u32 + 1);
        // the event sitting at P
        // the partner is referenced weakly: keep both alive for the duration of the check
        if pt(&l) == p {
            evs.push(l.clone());
        } else {
            evs.push(r.clone());
        }
        keep.push((l, r));
    }
    if evs.len() < 2 {
        return Ok(());
    }
    // two edges of ONE operand leaving the vertex in exactly the same direction overlap: not a valid operand
    for i in 0..evs.len() {
        for j in i + 1..evs.len() {
            if evs[i].is_left() == evs[j].is_left() && evs[i].is_subject == evs[j].is_subject && orient(p, used[i], used[j]) == 0 {
                return Ok(());
            }
        }
    }
    st.event_fans += 1;
    let r = check_event_order(&evs, st, rng);
    drop(keep);
    r
}

fn check_one_pair(old: Seg, new: Seg, subj_old: bool, subj_new: bool, st: &mut SweepStats) -> Result<(), String> {
    if new.0 == new.1 || old.0 == old.1 {
        return Ok(());
    }
    let rel = seg_rel(old, new);
    if !matches!(rel, Rel::Disjoint | Rel::SharedVertex | Rel::Tee) || !lifetimes_overlap(old, new) {
        return Ok(());
    }
    let (lo, _ro) = mk_left::<f64>(old, subj_old, 1);
    let (ln, _rn) = mk_left::<f64>(new, subj_new, 2);
    st.segment_pairs += 1;
    let (c1, c2) = (compare_segments(&lo, &ln), compare_segments(&ln, &lo));
    let d = || format!("segments {:?}-{:?} and {:?}-{:?} ({:?})", old.0, old.1, new.0, new.1, rel);
    if c1 == Ordering::Equal || c2 == Ordering::Equal {
        return Err(format!("segment order returns Equal for two distinct {}", d()));
    }
    if c1 != c2.reverse() {
        return Err(format!("segment order is not antisymmetric for {}: {:?} / {:?}", d(), c1, c2));
    }
    if let Some(g) = geo_order(old, new) {
        st.segment_geo_pairs += 1;
        if g != c1 {
            return Err(format!("segment order contradicts the vertical order of {}: cmp={:?}, geometry={:?}", d(), c1, g));
        }
    }
    Ok(())
}

#[cfg(test)]
mod selftest {
    use super::*;
    #[test]
    fn geometric_order() {
        let s = ((0.0, 0.0), (10.0, 0.0));
        assert_eq!(geo_order(s, ((2.0, 1.0), (5.0, 3.0))), Some(Ordering::Less));
        assert_eq!(geo_order(s, ((2.0, -1.0), (5.0, -3.0))), Some(Ordering::Greater));
        assert_eq!(geo_order(s, ((2.0, -1.0), (5.0, 3.0))), None); // crossing
        assert_eq!(geo_order(s, ((12.0, 1.0), (15.0, 3.0))), None); // no common abscissa
        assert_eq!(geo_order(s, ((0.0, 0.0), (5.0, 3.0))), Some(Ordering::Less)); // shared left endpoint
        assert_eq!(geo_order(((3.0, 1.0), (3.0, 4.0)), s), Some(Ordering::Greater)); // vertical above
        assert_eq!(geo_order(((3.0, 1.0), (3.0, 2.0)), ((3.0, 3.0), (3.0, 4.0))), Some(Ordering::Less));
        assert!(lifetimes_overlap(s, ((2.0, 1.0), (5.0, 3.0))));
        assert!(!lifetimes_overlap(s, ((10.0, 0.0), (12.0, 3.0))));
    }
}
