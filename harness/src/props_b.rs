//! Workers for C03 and the relational whole-operation properties C06..C12.

use crate::ctx::*;
use crate::gen::*;
use crate::geom::*;
use crate::iface::*;
use crate::monitors::*;
use crate::props_a::*;
use crate::util::Rng;
use serde_json::{json, Value};

type Fail = (String, String);

fn fail_of(f: Failure) -> Fail {
    (format!("failure:{}", f.symptom()), format!("{:?}", f))
}

fn run(a: &MP, b: &MP, op: Op, f32_run: bool) -> Result<MP, Fail> {
    run_any(a, b, op, f32_run, Pairing::MM).map_err(fail_of)
}

// ------------------------------------------------------------------------------------------
// C03: every call on valid input returns

fn repeat_vertices(rng: &mut Rng, mp: &MP) -> MP {
    mp.iter()
        .map(|p| {
            p.iter()
                .map(|r| {
                    let mut out = Vec::new();
                    for &q in r {
                        out.push(q);
                        while rng.below(4) == 0 {
                            out.push(q);
                        }
                    }
                    out
                })
                .collect()
        })
        .collect()
}

/// degenerate but valid operands: empty multipolygon, polygons with empty rings, rings that are a single
/// repeated vertex, repeated consecutive vertices, empty holes
pub fn degenerate_variant(rng: &mut Rng, case: &Case, k: u64) -> Case {
    let mut c = case.clone();
    c.family = "S-degenerate";
    match k % 8 {
        0 => {
            c.a = vec![];
            c.desc = format!("empty subject; {}", case.desc);
        }
        1 => {
            c.b = vec![];
            c.desc = format!("empty clipping; {}", case.desc);
        }
        2 => {
            c.a = vec![];
            c.b = vec![];
            c.desc = "both operands empty".into();
        }
        3 => {
            c.a.push(vec![vec![]]);
            c.b.insert(0, vec![vec![]]);
            c.desc = format!("polygons with an empty exterior ring added; {}", case.desc);
        }
        4 => {
            let p = c.a.first().and_then(|p| p.first()).and_then(|r| r.first()).cloned().unwrap_or((1.0, 1.0));
            c.b.push(vec![vec![p, p, p, p]]);
            c.a.push(vec![vec![(p.0 + 1.0, p.1)]]);
            c.desc = format!("rings consisting of one repeated vertex added; {}", case.desc);
        }
        5 => {
            c.a = repeat_vertices(rng, &case.a);
            c.b = repeat_vertices(rng, &case.b);
            c.desc = format!("repeated consecutive vertices; {}", case.desc);
        }
        6 => {
            for p in c.a.iter_mut().chain(c.b.iter_mut()) {
                p.push(vec![]);
            }
            c.desc = format!("empty holes added; {}", case.desc);
        }
        _ => {
            c.a = vec![vec![vec![]]];
            c.desc = format!("subject is one polygon with an empty ring; {}", case.desc);
        }
    }
    c.faces = vec![];
    c
}

fn big_checkerboard(n: usize) -> Case {
    let t = Tess::grid(n, n);
    let sa: Vec<bool> = (0..n * n).map(|f| (f % n + f / n) % 2 == 0).collect();
    let sb: Vec<bool> = (0..n * n).map(|f| (f % n + f / n) % 3 == 0).collect();
    let map = |p: P| -> Pt { (p.0 as f64, p.1 as f64) };
    Case {
        family: "S-large",
        desc: format!("{}x{} checkerboard (every vertex a pinch) against a diagonal-stripe pattern", n, n),
        a: t.to_mp(&sa, true, &map),
        b: t.to_mp(&sb, true, &map),
        exact: true,
        exact_f32: false,
        integer: true,
        f32_ok: true,
        self_crossing: false,
        faces: vec![],
    }
}

fn comb_corner_case(n: usize) -> Case {
    let (a, b) = comb_corner(n);
    Case { family: "S-large", desc: format!("comb of {} thin rectangles against a box over its upper left corner (status stays a chain)", n), a, b, exact: true, exact_f32: false, integer: false, f32_ok: true, self_crossing: false, faces: vec![] }
}

/// box minus comb: the difference stops right of the subject's (the box's) bounding box with the whole comb in the status
fn comb_corner_swapped_case(n: usize) -> Case {
    let (a, b) = comb_corner(n);
    Case { family: "S-large", desc: format!("box over the upper left corner of a comb of {} thin rectangles as subject, the comb as clipping", n), a: b, b: a, exact: true, exact_f32: false, integer: false, f32_ok: true, self_crossing: false, faces: vec![] }
}

fn comb_case(n: usize) -> Case {
    let (a, b) = comb(n);
    Case { family: "S-large", desc: format!("comb of {} thin rectangles against a small box", n), a, b, exact: true, exact_f32: false, integer: false, f32_ok: true, self_crossing: false, faces: vec![] }
}

/// heap bound per call: linear in the number of sweep events actually processed (plus the operands' own size)
pub fn heap_bound(n_edges: usize, events: u64) -> usize {
    (64 << 10) + 1024 * (events as usize + 2 * n_edges)
}

pub fn c03_check(case: &Case, op: Op, f32_run: bool) -> Result<(), Fail> {
    let before = crate::util::heap_mark();
    let r = run(&case.a, &case.b, op, f32_run).map(|_| ());
    let peak = crate::util::heap_peak().saturating_sub(before);
    let events = geo_booleanop::verif::steps(geo_booleanop::verif::Loop::Sweep);
    let bound = heap_bound(case.n_edges(), events);
    LAST_HEAP.with(|l| l.set((peak, bound)));
    r?;
    if peak > bound {
        return Err(("heap".into(), format!("peak heap growth during the call was {} bytes for {} input edges and {} sweep events (bound {} bytes)", peak, case.n_edges(), events, bound)));
    }
    Ok(())
}

thread_local! {
    pub static LAST_HEAP: std::cell::Cell<(usize, usize)> = const { std::cell::Cell::new((0, 0)) };
}

pub fn c03_worker(ctx: &mut Ctx) {
    let slow = ctx.is_slow_variant();
    let miri = ctx.variant == "miri";
    let total = if miri { ctx.count(8, 160) } else if slow { ctx.count(4_000, 200_000) } else { ctx.count(150_000, 6_000_000) };
    let mut max_events = 0u64;
    for i in ctx.my_indices(total) {
        if ctx.out_of_time() {
            break;
        }
        let mut rng = ctx.rng("mixed", i);
        let mut rej = 0;
        // "returns normally" is scale-free: one case in twelve at magnitude 2^-200..2^-40 or 2^40..2^400
        let base = if miri { gen_mixed(&mut rng, 0, &mut rej) } else { gen_mixed_scaled(&mut rng, ctx.size(), &mut rej) };
        ctx.cnt("generator_rejections_outside_robust_domain", rej);
        let case = if i % 5 == 4 { degenerate_variant(&mut rng, &base, i / 5) } else { base };
        ctx.cnt(&format!("family:{}", case.family), 1);
        ctx.begin("mixed", i, "");
        for op in OPS {
            for f32_run in [false, true] {
                if f32_run && (!case.f32_ok || (miri && i % 2 == 0)) {
                    continue;
                }
                ctx.evaluations += 1;
                ctx.cnt(if f32_run { "calls_f32" } else { "calls_f64" }, 1);
                let n = case.n_edges();
                if let Err((sym, detail)) = c03_check(&case, op, f32_run) {
                    ctx.violation(&sym, &format!("{} ({}) {}", op.name(), float_name(f32_run), detail), boolean_replay("C03", &case, Some(op), f32_run, Pairing::MM, json!({})));
                }
                let ev = geo_booleanop::verif::steps(geo_booleanop::verif::Loop::Sweep);
                max_events = max_events.max(ev);
                let (peak, bound) = LAST_HEAP.with(|l| l.get());
                if bound > 0 && ctx.variant != "miri" {
                    ctx.max("max_heap_growth_permille_of_bound", (peak as u64 * 1000) / bound as u64);
                    ctx.max("max_heap_growth_bytes", peak as u64);
                }
                if n > 0 {
                    // observed ratio events / budget (budget = 4n^2+8n+64)
                    let permille = ev * 1000 / sweep_budget(n);
                    ctx.max("max_sweep_events_permille_of_budget", permille);
                }
                ctx.note_nontrivial(case_hash(&case, &format!("{}{}", op.name(), f32_run)));
            }
        }
        if i % 64 == 7 && !slow && case.family != "S-degenerate" {
            // "every call returns", also a call made while its thread is shutting down (from thread-local destructors)
            match run_at_thread_exit(&case.a, &case.b) {
                Ok(per_guard) => {
                    for (gi, results) in per_guard.iter().enumerate() {
                        for (oi, r) in results.iter().enumerate() {
                            ctx.evaluations += 1;
                            ctx.cnt("calls_from_thread_local_destructors", 1);
                            if let Err(f) = r {
                                ctx.violation(&format!("failure:{}", f.symptom()), &format!("{} called from a thread-local destructor (guard {}) does not return normally: {:?}", OPS[oi].name(), gi, f), boolean_replay("C03", &case, Some(OPS[oi]), false, Pairing::MM, json!({"at_thread_exit": true})));
                            }
                        }
                    }
                }
                Err(m) => {
                    ctx.notes.push(format!("HARNESS-ERROR {}", m));
                    ctx.cnt("harness_errors", 1);
                }
            }
        }
        ctx.end();
        if i % 9973 == 0 {
            ctx.sample(case_brief(&case));
        }
    }
    ctx.max("max_sweep_events_in_one_call", max_events);
    crate::props::run_known(ctx, &mut |case, op, f32_run| c03_check(case, op, f32_run));
    // sentinels: the operand pairs of ALL recorded findings (delicate near-degenerate inputs) must return normally for
    // every operation and float type, except for the (input, operation, float, variant) combinations listed for C03
    if ctx.shard == 0 && ctx.only_index.is_none() && ctx.variant != "miri" && ctx.variant != "valgrind" {
        for (case, listed) in crate::props::sentinel_inputs("C03", &ctx.variant) {
            for op in OPS {
                for f32_run in [false, true] {
                    if listed.iter().any(|(o, f)| (o.is_none() || *o == Some(op)) && (f.is_none() || *f == Some(f32_run))) {
                        continue;
                    }
                    ctx.begin("sentinel", 0, &case.desc.replace(' ', "_"));
                    ctx.cnt("sentinel_calls", 1);
                    ctx.evaluations += 1;
                    if let Err((sym, detail)) = c03_check(&case, op, f32_run) {
                        ctx.violation(&sym, &format!("{} ({}) on the operands of {}: {}", op.name(), float_name(f32_run), case.desc, detail), boolean_replay("C03", &case, Some(op), f32_run, Pairing::MM, json!({})));
                    }
                    ctx.end();
                }
            }
        }
    }
    // large inputs: only in the native variants, on one shard each
    if !slow {
        // (case, operations): the big combs only with the early-stopping operations (their sweep line still holds
        // every segment when the sweep stops), the smaller inputs with all four
        let early = vec![Op::Intersection, Op::Difference];
        let mut large: Vec<(Case, Vec<Op>)> = match ctx.tier {
            Tier::Quick => vec![(comb_corner_case(150_000), vec![Op::Intersection]), (comb_corner_swapped_case(150_000), early.clone()), (comb_case(150_000), vec![Op::Intersection]), (comb_case(25_000), OPS.to_vec()), (big_checkerboard(60), OPS.to_vec())],
            Tier::Thorough => vec![(comb_case(250_000), OPS.to_vec()), (comb_corner_case(250_000), vec![Op::Intersection]), (comb_corner_swapped_case(250_000), early.clone()), (comb_corner_case(150_000), vec![Op::Intersection]), (comb_case(60_000), OPS.to_vec()), (big_checkerboard(150), OPS.to_vec()), (big_checkerboard(100), OPS.to_vec())],
        };
        for (slot, (case, ops)) in large.drain(..).enumerate() {
            let slot = slot as u64;
            if ctx.only_index.map(|o| o != slot).unwrap_or(slot % ctx.nshards != ctx.shard) {
                continue;
            }
            ctx.cnt("large_inputs", 1);
            ctx.max("max_input_edges", case.n_edges() as u64);
            for op in ops {
                for f32_run in [false, true] {
                    ctx.begin("large", slot, &format!("{} {} {}", case.desc.replace(' ', "_"), op.name(), float_name(f32_run)));
                    ctx.evaluations += 1;
                    // once more on a thread with the default 2 MiB stack (an overflow kills this worker; the journal names the case)
                    if !f32_run {
                        let (a2, b2) = (case.a.clone(), case.b.clone());
                        let r = std::thread::Builder::new().stack_size(2 << 20).spawn(move || run_any(&a2, &b2, op, false, Pairing::MM).map(|m| m.len())).unwrap().join();
                        ctx.cnt("large_inputs_run_on_2MiB_thread", 1);
                        if let Ok(Err(f)) = r {
                            ctx.violation(&format!("failure:{}", f.symptom()), &format!("{} on {} (2 MiB thread): {:?}", op.name(), case.desc, f), json!({"kind": "generated", "property": "C03", "label": "large", "index": slot, "seed": ctx.seed, "tier": ctx.tier.name(), "variant": ctx.variant}));
                        }
                    }
                    if let Err((sym, detail)) = c03_check(&case, op, f32_run) {
                        // do not store 10^6-edge operands in the replay: the construction is deterministic
                        ctx.violation(&sym, &format!("{} ({}) on {}: {}", op.name(), float_name(f32_run), case.desc, detail), json!({"kind": "generated", "property": "C03", "label": "large", "index": slot, "seed": ctx.seed, "tier": ctx.tier.name(), "variant": ctx.variant}));
                    }
                    let ev = geo_booleanop::verif::steps(geo_booleanop::verif::Loop::Sweep);
                    ctx.max("max_sweep_events_in_one_call", ev);
                    ctx.end();
                }
            }
        }
    }
    ctx.monitor.insert("hook_hits".into(), json!(hits_map()));
}

// ------------------------------------------------------------------------------------------
// C06: set-algebra laws

pub fn c06_check(case: &Case, f32_run: bool, law_counts: &mut std::collections::BTreeMap<String, u64>) -> Result<(), Fail> {
    let (a, b) = (&case.a, &case.b);
    let exact = if f32_run { case.exact_f32 } else { case.exact };
    let w = witnesses(case, case.tol(f32_run));
    let mut bump = |k: &str| *law_counts.entry(k.to_string()).or_insert(0) += 1;
    // commutativity
    for op in [Op::Intersection, Op::Union, Op::Xor] {
        let (r1, r2) = (run(a, b, op, f32_run)?, run(b, a, op, f32_run)?);
        bump("commutativity");
        if exact {
            if canon_ringset(&r1) != canon_ringset(&r2) {
                return Err(("law:commutativity".into(), format!("{}(A,B) and {}(B,A) return different ring sets: {:?} vs {:?}", op.name(), op.name(), r1, r2)));
            }
        } else {
            same_region(&w, &r1, &r2).map_err(|m| ("law:commutativity".to_string(), format!("{}(A,B) vs {}(B,A): {}", op.name(), op.name(), m)))?;
        }
    }
    // self-operations (every edge coincident)
    if !case.self_crossing {
        for (x, name) in [(a, "A"), (b, "B")] {
            if x.is_empty() {
                continue;
            }
            let wx = Witnesses { pts: w.pts.iter().map(|p| Wit { x: p.x, y: p.y, in_a: if name == "A" { p.in_a } else { p.in_b }, in_b: false }).collect(), clear: w.clear, pieces: 0, skipped_unclear: 0, from_faces: 0 };
            for op in [Op::Intersection, Op::Union] {
                let r = run(x, x, op, f32_run)?;
                bump("idempotence");
                for p in &wx.pts {
                    if in_mp(&r, p.x, p.y) != p.in_a {
                        return Err(("law:idempotence".into(), format!("{} of {} with itself differs from {} at witness ({:?},{:?})", op.name(), name, name, p.x, p.y)));
                    }
                }
                let (ar, ax) = (mp_area2(&r), mp_area2(x));
                let tol = if exact { 0.0 } else { 1e-9 * case.scale() * case.scale() * 64.0 * if f32_run { 1e6 } else { 1.0 } };
                if (ar - ax).abs() > tol {
                    return Err(("law:idempotence".into(), format!("{} of {} with itself has area2 {:?}, {} has {:?}", op.name(), name, ar, name, ax)));
                }
            }
            for op in [Op::Difference, Op::Xor] {
                let r = run(x, x, op, f32_run)?;
                bump("self-annihilation");
                if !r.is_empty() {
                    return Err(("law:self-annihilation".into(), format!("{} of {} with itself is not empty: {:?}", op.name(), name, r)));
                }
            }
        }
    }
    // empty operand, both as an empty multipolygon and as a polygon with empty rings
    let empties: [MP; 2] = [vec![], vec![vec![vec![]]]];
    for e in &empties {
        for (op, left_empty, want_a) in [
            (Op::Union, false, true),
            (Op::Union, true, true),
            (Op::Difference, false, true),
            (Op::Difference, true, false),
            (Op::Intersection, false, false),
            (Op::Intersection, true, false),
            (Op::Xor, false, true),
            (Op::Xor, true, true),
        ] {
            let (l, rgt) = if left_empty { (e, a) } else { (a, e) };
            // through every trait pairing the two operands can be passed in (a bare Polygon needs exactly one part)
            for pairing in PAIRINGS {
                if !pairing.applicable(l, rgt) {
                    continue;
                }
                let r = run_any(l, rgt, op, f32_run, pairing).map_err(fail_of)?;
                bump("empty-operand");
                let got = canon_ringset(&r);
                let want = if want_a { canon_ringset(a) } else { vec![] };
                // the library works in F; for f32 the input is already f32-representable
                if got != want {
                    return Err((
                        "law:empty-operand".into(),
                        format!("{} with an empty {} operand ({} form, {}) returned {:?}, expected {}", op.name(), if left_empty { "left" } else { "right" }, if e.is_empty() { "no-polygon" } else { "empty-ring" }, pairing.name(), r, if want_a { "the other operand" } else { "nothing" }),
                    ));
                }
            }
        }
    }
    // disjoint and merely touching bounding boxes
    if let (Some((alo, ahi)), Some((blo, bhi))) = (bbox(a), bbox(b)) {
        if !case.self_crossing {
            let width = (ahi.0 - alo.0).max(bhi.0 - blo.0).max(1.0);
            // power-of-two / integer shifts keep exact families exact
            let far = (2.0f64).powi((width.log2().ceil() as i32) + 3);
            for (dx, dy, touching) in [
                (ahi.0 - blo.0 + far, 0.0, false),
                (0.0, ahi.1 - blo.1 + far, false),
                (ahi.0 - blo.0, 0.0, true),
                (ahi.0 - blo.0, ahi.1 - blo.1, true),
                (0.0, ahi.1 - blo.1, true),
                (alo.0 - bhi.0, 0.0, true),
                (0.0, alo.1 - bhi.1, true),
            ] {
                let shift = |p: Pt| (p.0 + dx, p.1 + dy);
                let b2 = map_mp(b, &shift);
                if !exact {
                    // a float translation rounds: b2 is simply another valid operand, still fine for this law,
                    // but "touching" would no longer be exact
                    if touching {
                        continue;
                    }
                }
                if f32_run && rings(&b2).flatten().any(|q| (q.0 as f32 as f64) != q.0 || (q.1 as f32 as f64) != q.1) {
                    continue;
                }
                bump(if touching { "touching-boxes" } else { "disjoint-boxes" });
                let shifted = Case { family: case.family, desc: String::new(), a: a.clone(), b: b2.clone(), exact: case.exact, exact_f32: case.exact_f32, integer: case.integer, f32_ok: case.f32_ok, self_crossing: false, faces: vec![] };
                let w2 = witnesses(&shifted, case.tol(f32_run));
                for op in OPS {
                    let r = run(a, &b2, op, f32_run)?;
                    if !touching {
                        let want = match op {
                            Op::Intersection => vec![],
                            Op::Difference => canon_ringset(a),
                            _ => {
                                let mut u = a.clone();
                                u.extend(b2.iter().cloned());
                                canon_ringset(&u)
                            }
                        };
                        if canon_ringset(&r) != want {
                            return Err(("law:disjoint-boxes".into(), format!("{} of operands with disjoint bounding boxes returned {:?}", op.name(), r)));
                        }
                    } else {
                        if op == Op::Intersection && !r.is_empty() && mp_area2(&r) != 0.0 {
                            return Err(("law:touching-boxes".into(), format!("intersection of operands with merely touching bounding boxes is not empty: {:?}", r)));
                        }
                        check_region(&w2, op, &r).map_err(|m| ("law:touching-boxes".to_string(), format!("{}: {}", op.name(), m)))?;
                    }
                }
            }
        }
    }
    Ok(())
}

pub fn c06_worker(ctx: &mut Ctx) {
    let total = ctx.count(120_000, 4_000_000);
    let mut laws = std::collections::BTreeMap::new();
    for i in ctx.my_indices(total) {
        if ctx.out_of_time() {
            break;
        }
        let mut rng = ctx.rng("mixed", i);
        let case = if i % 500 < 10 {
            // the constructed configurations (shared edges with contours directly above them, in both operand orders)
            ctx.cnt("family:S-constructed", 1);
            let mut c = c02_constructed(i % 500);
            if (i / 500) % 2 == 1 {
                std::mem::swap(&mut c.a, &mut c.b);
            }
            c
        } else {
            match gen_checked(ctx, &mut rng, false) {
                Some(c) => c,
                None => continue,
            }
        };
        ctx.begin("mixed", i, "");
        ctx.evaluations += 1;
        if let Err((sym, detail)) = c06_check(&case, false, &mut laws) {
            ctx.violation(&sym, &detail, boolean_replay("C06", &case, None, false, Pairing::MM, json!({})));
        }
        if case.f32_ok && i % 4 == 0 {
            ctx.cnt("cases_also_run_in_f32", 1);
            if let Err((sym, detail)) = c06_check(&case, true, &mut laws) {
                ctx.violation(&format!("f32:{}", sym), &detail, boolean_replay("C06", &case, None, true, Pairing::MM, json!({})));
            }
        }
        if nontrivial(&case) {
            ctx.note_nontrivial(case_hash(&case, ""));
        }
        ctx.end();
        if i % 997 == 0 {
            ctx.sample(case_brief(&case));
        }
    }
    for (k, v) in laws {
        ctx.cnt(&format!("law_instances:{}", k), v);
    }
    ctx.monitor.insert("hook_hits".into(), json!(hits_map()));
}

// ------------------------------------------------------------------------------------------
// C07: independence of the representation

fn rotate_ring(r: &Ring, k: usize) -> Ring {
    let mut o = open_ring(r);
    if o.is_empty() {
        return r.clone();
    }
    // open_ring also removes repeated vertices, which is a change of representation as well
    let n = o.len();
    o.rotate_left(k % n);
    let f = o[0];
    o.push(f);
    o
}

pub fn rerepresent(rng: &mut Rng, mp: &MP, what: &mut Vec<&'static str>) -> MP {
    let mut out: MP = mp.clone();
    if rng.below(2) == 0 {
        what.push("ring-start");
        for p in out.iter_mut() {
            for r in p.iter_mut() {
                let k = rng.below(r.len().max(1) as u64) as usize;
                *r = rotate_ring(r, k);
            }
        }
    }
    if rng.below(2) == 0 {
        what.push("ring-direction");
        for p in out.iter_mut() {
            for r in p.iter_mut() {
                if rng.below(2) == 0 {
                    r.reverse();
                }
            }
        }
    }
    if rng.below(2) == 0 {
        what.push("order-of-parts-and-holes");
        rng.shuffle(&mut out);
        for p in out.iter_mut() {
            if p.len() > 2 {
                rng.shuffle(&mut p[1..]);
            }
        }
    }
    if rng.below(2) == 0 {
        what.push("repeated-vertices");
        out = repeat_vertices(rng, &out);
    }
    out
}

pub fn c07_check(case: &Case, seed_rng: &mut Rng, f32_run: bool, counts: &mut std::collections::BTreeMap<String, u64>) -> Result<(), Fail> {
    let exact = if f32_run { case.exact_f32 } else { case.exact };
    let w = witnesses(case, case.tol(f32_run));
    for round in 0..3 {
        let mut what = Vec::new();
        let a2 = rerepresent(seed_rng, &case.a, &mut what);
        let b2 = rerepresent(seed_rng, &case.b, &mut what);
        for k in &what {
            *counts.entry(k.to_string()).or_insert(0) += 1;
        }
        for op in OPS {
            let r0 = run(&case.a, &case.b, op, f32_run)?;
            let r1 = run(&a2, &b2, op, f32_run)?;
            same_region(&w, &r0, &r1).map_err(|m| ("representation".to_string(), format!("{} after changing {:?}: {}", op.name(), what, m)))?;
            if exact && canon_ringset(&r0) != canon_ringset(&r1) {
                // the trivial path hands rings back unchanged, so their repeated vertices survive: canon_ring removes them
                return Err(("representation".into(), format!("{} after changing {:?}: ring sets differ: {:?} vs {:?}", op.name(), what, r0, r1)));
            }
            if round == 0 {
                // the four trait implementations must give the identical value
                for pairing in [Pairing::PM, Pairing::MP, Pairing::PP] {
                    if pairing.applicable(&case.a, &case.b) {
                        *counts.entry(format!("pairing:{:?}", pairing)).or_insert(0) += 1;
                        let rp = run_any(&case.a, &case.b, op, f32_run, pairing).map_err(fail_of)?;
                        if rp != r0 {
                            return Err(("representation".into(), format!("{} through {} differs from the multipolygon x multipolygon result: {:?} vs {:?}", op.name(), pairing.name(), rp, r0)));
                        }
                    }
                }
                // named convenience methods == boolean(op)
                let rn = if f32_run { run_op_named::<f32>(&case.a, &case.b, op) } else { run_op_named::<f64>(&case.a, &case.b, op) }.map_err(fail_of)?;
                if rn != r0 {
                    return Err(("representation".into(), format!("method {}() differs from boolean(.., {:?})", op.name(), op)));
                }
            }
        }
    }
    Ok(())
}

pub fn c07_worker(ctx: &mut Ctx) {
    let total = ctx.count(40_000, 2_000_000);
    let mut counts = std::collections::BTreeMap::new();
    for i in ctx.my_indices(total) {
        if ctx.out_of_time() {
            break;
        }
        let mut rng = ctx.rng("mixed", i);
        let case = match gen_checked(ctx, &mut rng, false) {
            Some(c) => c,
            None => continue,
        };
        ctx.begin("mixed", i, "");
        ctx.evaluations += 1;
        let mut r2 = ctx.rng("rerepresent", i);
        if let Err((sym, detail)) = c07_check(&case, &mut r2, false, &mut counts) {
            ctx.violation(&sym, &detail, boolean_replay("C07", &case, None, false, Pairing::MM, json!({"rerepresent_stream": i, "seed": ctx.seed})));
        }
        if case.f32_ok && i % 4 == 0 {
            ctx.cnt("cases_also_run_in_f32", 1);
            let mut r3 = ctx.rng("rerepresent", i);
            if let Err((sym, detail)) = c07_check(&case, &mut r3, true, &mut counts) {
                ctx.violation(&format!("f32:{}", sym), &detail, boolean_replay("C07", &case, None, true, Pairing::MM, json!({"rerepresent_stream": i, "seed": ctx.seed})));
            }
        }
        if nontrivial(&case) {
            ctx.note_nontrivial(case_hash(&case, ""));
        }
        ctx.end();
        if i % 997 == 0 {
            ctx.sample(case_brief(&case));
        }
    }
    for (k, v) in counts {
        ctx.cnt(&format!("changes:{}", k), v);
    }
    ctx.monitor.insert("hook_hits".into(), json!(hits_map()));
}

// ------------------------------------------------------------------------------------------
// C08: exact similarity transforms

pub const SYMMETRIES: [(&str, fn(Pt) -> Pt); 8] = [
    ("identity", |p| p),
    ("mirror-x", |p| (-p.0, p.1)),
    ("mirror-y", |p| (p.0, -p.1)),
    ("rotate-180", |p| (-p.0, -p.1)),
    ("transpose", |p| (p.1, p.0)),
    ("rotate-90", |p| (-p.1, p.0)),
    ("rotate-270", |p| (p.1, -p.0)),
    ("anti-transpose", |p| (-p.1, -p.0)),
];

pub fn c08_check(case: &Case, rng: &mut Rng, f32_run: bool, counts: &mut std::collections::BTreeMap<String, u64>) -> Result<(), Fail> {
    let exact = if f32_run { case.exact_f32 } else { case.exact };
    // every transformed call of one case goes through the same trait pairing (the transforms keep the number of parts);
    // the pairing rotates from case to case
    let applicable: Vec<Pairing> = PAIRINGS.iter().cloned().filter(|p| p.applicable(&case.a, &case.b)).collect();
    let pairing = applicable[rng.below(applicable.len() as u64) as usize];
    *counts.entry(format!("through:{}", pairing.name())).or_insert(0) += 1;
    let run = |a: &MP, b: &MP, op: Op, f32_run: bool| -> Result<MP, Fail> { run_any(a, b, op, f32_run, pairing).map_err(fail_of) };
    let base: Vec<MP> = OPS.iter().map(|&op| run(&case.a, &case.b, op, f32_run)).collect::<Result<_, _>>()?;
    // power-of-two scaling: bit-identical, polygon order included
    // "without overflow/underflow": the library forms fourth powers of lengths (squared cross products); in f32 the
    // scaled coordinate magnitude is kept above 1e-4 so that those do not underflow (overflow to +inf is harmless: they
    // are only tested for being positive) and below 1e17 so that squares stay finite
    let (kmin, kmax) = if f32_run {
        let sc = case.scale();
        (((1e-4 / sc).log2().ceil() as i64).min(0), ((1e17 / sc).log2().floor() as i64).max(0))
    } else {
        // downwards 2^-200 keeps squared cross products above the underflow threshold; upwards they may overflow to
        // +inf, which is harmless (they are only tested for being positive), so the range is asymmetric
        (-200, 400)
    };
    for _ in 0..2 {
        let k = rng.range(kmin, kmax) as i32;
        let s = (2.0f64).powi(k);
        let sc = |p: Pt| (p.0 * s, p.1 * s);
        let (a2, b2) = (map_mp(&case.a, &sc), map_mp(&case.b, &sc));
        *counts.entry("scalings".into()).or_insert(0) += 1;
        for (oi, &op) in OPS.iter().enumerate() {
            let r = run(&a2, &b2, op, f32_run)?;
            let want = map_mp(&base[oi], &sc);
            if r != want {
                return Err(("transform:scale".into(), format!("{} of operands scaled by 2^{} is not the bit-identical scaled result: {:?} vs {:?}", op.name(), k, r, want)));
            }
        }
    }
    // integer translation on exact families: identically translated ring set
    if exact {
        let (dx, dy) = (rng.range(-64, 64) as f64, rng.range(-64, 64) as f64);
        let tr = |p: Pt| (p.0 + dx, p.1 + dy);
        let (a2, b2) = (map_mp(&case.a, &tr), map_mp(&case.b, &tr));
        *counts.entry("translations".into()).or_insert(0) += 1;
        for (oi, &op) in OPS.iter().enumerate() {
            let r = run(&a2, &b2, op, f32_run)?;
            let want = map_mp(&base[oi], &tr);
            if canon_mp(&r) != canon_mp(&want) {
                return Err(("transform:translate".into(), format!("{} of operands translated by ({},{}) is not the translated result: {:?} vs {:?}", op.name(), dx, dy, r, want)));
            }
        }
    }
    // a huge translation (2^30..2^50) on exact families: still exactly representable, so still the identical result
    if exact && !f32_run {
        let sgn = |rng: &mut Rng| if rng.below(2) == 0 { 1.0 } else { -1.0 };
        let (tx, ty) = (sgn(rng) * (2.0f64).powi(rng.range(30, 50) as i32), sgn(rng) * (2.0f64).powi(rng.range(30, 50) as i32));
        let tr = |p: Pt| (p.0 + tx, p.1 + ty);
        let representable = rings(&case.a).chain(rings(&case.b)).flatten().all(|q| (q.0 + tx) - tx == q.0 && (q.1 + ty) - ty == q.1 && (q.0 + tx).abs() < 4.0e15 && (q.1 + ty).abs() < 4.0e15);
        // intersection points of exact families are lattice points with the same granularity as the input (halves for the
        // union-jack lattice): require one spare bit
        let spare = rings(&case.a).chain(rings(&case.b)).flatten().all(|q| (q.0 * 0.5 + tx) - tx == q.0 * 0.5 && (q.1 * 0.5 + ty) - ty == q.1 * 0.5);
        if representable && spare {
            let (a2, b2) = (map_mp(&case.a, &tr), map_mp(&case.b, &tr));
            *counts.entry("huge-translations".into()).or_insert(0) += 1;
            for (oi, &op) in OPS.iter().enumerate() {
                let r = run(&a2, &b2, op, f32_run)?;
                let want = map_mp(&base[oi], &tr);
                if canon_mp(&r) != canon_mp(&want) {
                    return Err(("transform:translate".into(), format!("{} of operands translated by ({:e},{:e}) is not the translated result: {:?} vs {:?}", op.name(), tx, ty, r, want)));
                }
            }
        }
    }
    // the 8 axis symmetries: transformed region
    let w = witnesses(case, case.tol(f32_run));
    for (name, f) in SYMMETRIES.iter().skip(1) {
        let (a2, b2) = (map_mp(&case.a, f), map_mp(&case.b, f));
        *counts.entry("symmetries".into()).or_insert(0) += 1;
        let w2 = Witnesses { pts: w.pts.iter().map(|p| { let q = f((p.x, p.y)); Wit { x: q.0, y: q.1, in_a: p.in_a, in_b: p.in_b } }).collect(), clear: w.clear, pieces: 0, skipped_unclear: 0, from_faces: 0 };
        for &op in OPS.iter() {
            let r = run(&a2, &b2, op, f32_run)?;
            check_region(&w2, op, &r).map_err(|m| ("transform:symmetry".to_string(), format!("{} after {}: {}", op.name(), name, m)))?;
        }
    }
    Ok(())
}

pub fn c08_worker(ctx: &mut Ctx) {
    let total = ctx.count(40_000, 2_000_000);
    let mut counts = std::collections::BTreeMap::new();
    for i in ctx.my_indices(total) {
        if ctx.out_of_time() {
            break;
        }
        let mut rng = ctx.rng("mixed", i);
        let case = match gen_checked(ctx, &mut rng, false) {
            Some(c) => c,
            None => continue,
        };
        ctx.begin("mixed", i, "");
        ctx.evaluations += 1;
        let mut r2 = ctx.rng("transform", i);
        if let Err((sym, detail)) = c08_check(&case, &mut r2, false, &mut counts) {
            ctx.violation(&sym, &detail, boolean_replay("C08", &case, None, false, Pairing::MM, json!({"stream": i, "seed": ctx.seed})));
        }
        if case.f32_ok && i % 4 == 0 {
            ctx.cnt("cases_also_run_in_f32", 1);
            let mut r3 = ctx.rng("transform", i);
            if let Err((sym, detail)) = c08_check(&case, &mut r3, true, &mut counts) {
                ctx.violation(&format!("f32:{}", sym), &detail, boolean_replay("C08", &case, None, true, Pairing::MM, json!({"stream": i, "seed": ctx.seed})));
            }
        }
        if nontrivial(&case) {
            ctx.note_nontrivial(case_hash(&case, ""));
        }
        ctx.end();
        if i % 997 == 0 {
            ctx.sample(case_brief(&case));
        }
    }
    for (k, v) in counts {
        ctx.cnt(&format!("transforms:{}", k), v);
    }
    ctx.monitor.insert("hook_hits".into(), json!(hits_map()));
}

// ------------------------------------------------------------------------------------------
// C09: far-away parts and the shortcuts

fn far_part(a: &MP, b: &MP, side: u64, exact: bool) -> Option<Poly> {
    let mut all = a.clone();
    all.extend(b.iter().cloned());
    let (lo, hi) = bbox(&all)?;
    let span = (hi.0 - lo.0).max(hi.1 - lo.1).max(1e-300);
    let mut d = if exact { (2.0f64).powi(span.log2().ceil() as i32 + 2) } else { span * 3.0 };
    let mut s = if exact { (2.0f64).powi(span.log2().ceil() as i32 - 1).max(1.0) } else { span * 0.25 };
    if side >= 4 {
        // very far: 2^40 .. 2^70 spans away (mixed magnitudes: the unit in the last place of the far coordinates exceeds
        // the whole near geometry); the part itself is scaled up so that it stays a proper triangle at that distance
        let k = [40, 56, 70][(side as usize / 4 - 1) % 3];
        d *= (2.0f64).powi(k);
        s = d * (2.0f64).powi(-20);
    }
    let (cx, cy) = match side % 4 {
        0 => (lo.0 - d, lo.1),
        1 => (hi.0 + d, lo.1),
        2 => (lo.0, hi.1 + d),
        _ => (lo.0, lo.1 - d),
    };
    let (cx, cy) = if exact { (cx.floor(), cy.floor()) } else { (cx, cy) };
    // a triangle, not axis-parallel only
    Some(vec![vec![(cx, cy), (cx + s, cy), (cx + s * 0.5, cy + s), (cx, cy)]])
}

pub fn c09_check(case: &Case, f32_run: bool, counts: &mut std::collections::BTreeMap<String, u64>) -> Result<(), Fail> {
    let exact = if f32_run { case.exact_f32 } else { case.exact };
    if case.a.is_empty() || case.b.is_empty() {
        return Ok(());
    }
    // an empty operand and an operand that consists of one far part take the same shortcut: the far part may only add itself
    if let Some(part) = far_part(&case.a, &case.b, 1, exact) {
        if !f32_run || part[0].iter().all(|q| (q.0 as f32 as f64) == q.0 && (q.1 as f32 as f64) == q.1) {
            let empty: MP = vec![];
            let only_part: MP = vec![part.clone()];
            *counts.entry("empty-operand-vs-far-part-only".into()).or_insert(0) += 1;
            for &op in OPS.iter() {
                for part_is_clipping in [true, false] {
                    let (base, with) = if part_is_clipping { (run(&case.a, &empty, op, f32_run)?, run(&case.a, &only_part, op, f32_run)?) } else { (run(&empty, &case.b, op, f32_run)?, run(&only_part, &case.b, op, f32_run)?) };
                    let contributes = match op {
                        Op::Union | Op::Xor => true,
                        Op::Difference => !part_is_clipping,
                        Op::Intersection => false,
                    };
                    let mut want = base.clone();
                    if contributes {
                        want.push(part.clone());
                    }
                    if canon_ringset(&with) != canon_ringset(&want) {
                        return Err(("far-part".into(), format!("{} with an empty {} operand vs. the same with a single far part: {:?} vs expected {:?}", op.name(), if part_is_clipping { "clipping" } else { "subject" }, with, want)));
                    }
                }
            }
        }
    }
    let base: Vec<MP> = OPS.iter().map(|&op| run(&case.a, &case.b, op, f32_run)).collect::<Result<_, _>>()?;
    // an entry point may have a shortcut of its own: the bare-polygon pairings must agree with the result above (regions
    // everywhere; ring sets on exact families, where both paths assemble the same rings)
    for pairing in PAIRINGS {
        if pairing == Pairing::MM || !pairing.applicable(&case.a, &case.b) {
            continue;
        }
        *counts.entry("entry-point-comparisons".into()).or_insert(0) += 1;
        for (oi, &op) in OPS.iter().enumerate() {
            let r = run_any(&case.a, &case.b, op, f32_run, pairing).map_err(fail_of)?;
            if mp_area2(&r) != mp_area2(&base[oi]) || (exact && canon_ringset(&r) != canon_ringset(&base[oi])) {
                return Err(("shortcut".into(), format!("{} through {} differs from the result through MultiPolygon x MultiPolygon (a shortcut in one entry point?): {:?} vs {:?}", op.name(), pairing.name(), r, base[oi])));
            }
        }
    }
    let hooks_before = (hit(geo_booleanop::verif::Site::TrivialResult), hit(geo_booleanop::verif::Site::SubEarlyBreak));
    let very_far = 4 + 4 * (crate::util::fnv64(case.desc.as_bytes()) % 3);
    for side in (0..4u64).chain(very_far..very_far + 4) {
        for on_subject in [true, false] {
            if side >= 4 && (f32_run || (side + on_subject as u64) % 2 == 1) {
                continue; // half of the very far placements per case, f64 only
            }
            let part = match far_part(&case.a, &case.b, side, exact) {
                Some(p) => p,
                None => continue,
            };
            if f32_run && part[0].iter().any(|q| (q.0 as f32 as f64) != q.0 || (q.1 as f32 as f64) != q.1) {
                continue;
            }
            let (mut a2, mut b2) = (case.a.clone(), case.b.clone());
            if on_subject {
                a2.push(part.clone())
            } else {
                b2.insert(0, part.clone())
            }
            *counts.entry(format!("far-part:{}{}", if side >= 4 { "very-far-" } else { "" }, ["left", "right", "above", "below"][side as usize % 4])).or_insert(0) += 1;
            for (oi, &op) in OPS.iter().enumerate() {
                let r = run(&a2, &b2, op, f32_run)?;
                let contributes = match op {
                    Op::Union | Op::Xor => true,
                    Op::Difference => on_subject,
                    Op::Intersection => false,
                };
                let mut want = base[oi].clone();
                if contributes {
                    want.push(part.clone());
                }
                let same_path = bboxes_disjoint(&case.a, &case.b) == bboxes_disjoint(&a2, &b2);
                if same_path {
                    if canon_ringset(&r) != canon_ringset(&want) {
                        return Err((
                            "far-part".into(),
                            format!("{} with a far part added {} the {} changes the result by more than the part's own contribution: {:?} vs expected {:?}", op.name(), ["left of", "right of", "above", "below"][side as usize], if on_subject { "subject" } else { "clipping" }, r, want),
                        ));
                    }
                } else {
                    // one run takes the bounding-box shortcut (rings handed back unchanged), the other the full
                    // sweep (rings re-assembled): the property promises equal regions there
                    *counts.entry("far-part-switches-between-shortcut-and-sweep".into()).or_insert(0) += 1;
                    let moved = Case { family: case.family, desc: String::new(), a: a2.clone(), b: b2.clone(), exact: case.exact, exact_f32: case.exact_f32, integer: case.integer, f32_ok: case.f32_ok, self_crossing: case.self_crossing, faces: vec![] };
                    let w = witnesses(&moved, case.tol(f32_run));
                    same_region(&w, &r, &want).map_err(|m| ("far-part".to_string(), format!("{} with a far part added (switching between shortcut and sweep): {}", op.name(), m)))?;
                }
            }
        }
    }
    let hooks_after = (hit(geo_booleanop::verif::Site::TrivialResult), hit(geo_booleanop::verif::Site::SubEarlyBreak));
    *counts.entry("observed:trivial-path-calls".into()).or_insert(0) += hooks_after.0 - hooks_before.0;
    *counts.entry("observed:early-break-calls".into()).or_insert(0) += hooks_after.1 - hooks_before.1;
    // shortcut vs full sweep on the same geometry: move B off so that the boxes are disjoint (trivial path), then add
    // far parts to A on both sides of B so that the boxes overlap again (full sweep): same rings plus the parts
    if let (Some((alo, ahi)), Some((blo, _bhi))) = (bbox(&case.a), bbox(&case.b)) {
        let span = (ahi.0 - alo.0).max(1.0);
        let d = if exact { (2.0f64).powi(span.log2().ceil() as i32 + 2) } else { span * 4.0 };
        let dx = ahi.0 - blo.0 + d;
        let shift = |p: Pt| (p.0 + dx, p.1);
        let b2 = map_mp(&case.b, &shift);
        let ok32 = !f32_run || rings(&b2).flatten().all(|q| (q.0 as f32 as f64) == q.0);
        if (exact || !f32_run) && ok32 && !case.self_crossing {
            let trivial: Vec<MP> = OPS.iter().map(|&op| run(&case.a, &b2, op, f32_run)).collect::<Result<_, _>>()?;
            // a far part of A to the right of B makes the boxes overlap
            let (_, b2hi) = bbox(&b2).unwrap();
            let px = if exact { (b2hi.0 + d).floor() } else { b2hi.0 + d };
            let part: Poly = vec![vec![(px, alo.1), (px + 1.0f64.max(span * 0.25), alo.1), (px, alo.1 + 1.0f64.max(span * 0.25)), (px, alo.1)]];
            let ok32p = !f32_run || part[0].iter().all(|q| (q.0 as f32 as f64) == q.0 && (q.1 as f32 as f64) == q.1);
            if ok32p {
                let mut a2 = case.a.clone();
                a2.push(part.clone());
                *counts.entry("shortcut-vs-sweep".into()).or_insert(0) += 1;
                // The shortcut hands the input rings back unchanged while the sweep re-assembles them (and may cut
                // them differently at pinch vertices), so the two paths are compared as regions and by area.
                let moved = Case { family: case.family, desc: String::new(), a: a2.clone(), b: b2.clone(), exact: case.exact, exact_f32: case.exact_f32, integer: case.integer, f32_ok: case.f32_ok, self_crossing: false, faces: vec![] };
                let w = witnesses(&moved, case.tol(f32_run));
                for (oi, &op) in OPS.iter().enumerate() {
                    let r = run(&a2, &b2, op, f32_run)?;
                    let mut want = trivial[oi].clone();
                    if op != Op::Intersection {
                        want.push(part.clone());
                    }
                    same_region(&w, &r, &want).map_err(|m| ("shortcut".to_string(), format!("{}: bounding-box shortcut and full sweep disagree on the same geometry: {}", op.name(), m)))?;
                    check_region(&w, op, &r).map_err(|m| ("shortcut".to_string(), format!("{} (full sweep of box-disjoint operands): {}", op.name(), m)))?;
                    let (ar, aw) = (mp_area2(&r), mp_area2(&want));
                    let tol = if exact { 0.0 } else { 1e-9 * moved.scale() * moved.scale() * 64.0 };
                    if (ar - aw).abs() > tol {
                        return Err(("shortcut".into(), format!("{}: bounding-box shortcut and full sweep return different areas {:?} vs {:?}", op.name(), ar, aw)));
                    }
                }
            }
        }
    }
    Ok(())
}

pub fn c09_worker(ctx: &mut Ctx) {
    let total = ctx.count(30_000, 1_500_000);
    let mut counts = std::collections::BTreeMap::new();
    for i in ctx.my_indices(total) {
        if ctx.out_of_time() {
            break;
        }
        let mut rng = ctx.rng("mixed", i);
        let case = match gen_checked(ctx, &mut rng, false) {
            Some(c) => c,
            None => continue,
        };
        ctx.begin("mixed", i, "");
        ctx.evaluations += 1;
        if let Err((sym, detail)) = c09_check(&case, false, &mut counts) {
            ctx.violation(&sym, &detail, boolean_replay("C09", &case, None, false, Pairing::MM, json!({})));
        }
        if case.f32_ok && case.exact_f32 && i % 4 == 0 {
            ctx.cnt("cases_also_run_in_f32", 1);
            if let Err((sym, detail)) = c09_check(&case, true, &mut counts) {
                ctx.violation(&format!("f32:{}", sym), &detail, boolean_replay("C09", &case, None, true, Pairing::MM, json!({})));
            }
        }
        if nontrivial(&case) {
            ctx.note_nontrivial(case_hash(&case, ""));
        }
        ctx.end();
        if i % 997 == 0 {
            ctx.sample(case_brief(&case));
        }
    }
    for (k, v) in counts {
        ctx.cnt(&k, v);
    }
    ctx.monitor.insert("hook_hits".into(), json!(hits_map()));
}

// ------------------------------------------------------------------------------------------
// C10: f32 and f64

pub fn c10_check(case: &Case, counts: &mut std::collections::BTreeMap<String, u64>) -> Result<(), Fail> {
    if !case.f32_ok {
        return Ok(());
    }
    let w = witnesses(case, case.tol(true));
    let small = max_abs_coord(&[&case.a, &case.b]) < 1024.0 || (case.integer && max_abs_coord(&[&case.a, &case.b]) <= 16_777_216.0);
    for op in OPS {
        let r32 = run(&case.a, &case.b, op, true)?;
        *counts.entry("f32_operations".into()).or_insert(0) += 1;
        check_region(&w, op, &r32).map_err(|m| ("f32:region".to_string(), format!("{} (f32): {}", op.name(), m)))?;
        check_structure(&r32, &w, case.exact_f32, &mut StructStats::default()).map_err(|m| ("f32:structure".to_string(), format!("{} (f32): {}", op.name(), m)))?;
        let assembled = !bboxes_disjoint(&case.a, &case.b);
        check_provenance(case, &r32, case.tol(true), assembled, &mut ProvStats::default()).map_err(|m| ("f32:provenance".to_string(), format!("{} (f32): {}", op.name(), m)))?;
        if case.family == "D6-shallow" {
            // inputs are identical in both precisions and all crossings are well separated: the two results must have
            // the same combinatorial structure, vertex for vertex within the f32 tolerance (a crossing that one
            // precision misses - e.g. classified as parallel - shows as a missing vertex even where the wedge between
            // the two shallow edges is too thin for a witness point)
            let r64 = run(&case.a, &case.b, op, false)?;
            *counts.entry("f32_vs_f64_structure_comparisons".into()).or_insert(0) += 1;
            let verts = |mp: &MP| -> Vec<Pt> { rings(mp).flat_map(|r| open_ring(r).into_iter()).collect() };
            let (v32, v64) = (verts(&r32), verts(&r64));
            let tol = case.tol(true).max(1e-30);
            let near = |p: Pt, set: &Vec<Pt>| set.iter().any(|q| (p.0 - q.0).abs() <= tol && (p.1 - q.1).abs() <= tol);
            if r32.len() != r64.len() || rings(&r32).count() != rings(&r64).count() || v32.len() != v64.len() || !v32.iter().all(|p| near(*p, &v64)) || !v64.iter().all(|p| near(*p, &v32)) {
                return Err(("f32:differs-from-f64".into(), format!("{}: f32 result {:?} and f64 result {:?} of the same (exactly representable) input differ in structure or by more than {:e}", op.name(), r32, r64, tol)));
            }
        }
        if case.exact_f32 && small {
            let r64 = run(&case.a, &case.b, op, false)?;
            *counts.entry("f32_vs_f64_exact_comparisons".into()).or_insert(0) += 1;
            if r32 != r64 {
                return Err(("f32:differs-from-f64".into(), format!("{}: f32 result {:?} differs from f64 result {:?} on an input that is exact in both", op.name(), r32, r64)));
            }
        }
    }
    c05_check(case, true, &w).map_err(|(s, d)| (format!("f32:{}", s), d))?;
    *counts.entry("f32_consistency_checks".into()).or_insert(0) += 1;
    // "both are correct": the double-precision instantiation, called on this thread right after the single-precision one
    // on numerically identical operands, must still be accurate to double precision (nothing computed by one
    // instantiation may leak into the other)
    if !case.exact {
        let w64 = witnesses(case, case.tol(false));
        for op in OPS {
            let r64 = run(&case.a, &case.b, op, false)?;
            *counts.entry("f64_operations_right_after_f32_on_the_same_operands".into()).or_insert(0) += 1;
            check_region(&w64, op, &r64).map_err(|m| ("f64-after-f32:region".to_string(), format!("{} (f64 after f32): {}", op.name(), m)))?;
            let assembled = !bboxes_disjoint(&case.a, &case.b);
            check_provenance(case, &r64, case.tol(false), assembled, &mut ProvStats::default()).map_err(|m| ("f64-after-f32:provenance".to_string(), format!("{} (f64 right after the same operation in f32): {}", op.name(), m)))?;
        }
    }
    Ok(())
}

fn next_bits64(x: f64, up: bool) -> f64 {
    if x.is_nan() || (x == f64::INFINITY && up) || (x == f64::NEG_INFINITY && !up) {
        return x;
    }
    if x == 0.0 {
        return if up { f64::from_bits(1) } else { -f64::from_bits(1) };
    }
    let b = x.to_bits();
    f64::from_bits(if (x > 0.0) == up { b + 1 } else { b - 1 })
}
fn next_bits32(x: f32, up: bool) -> f32 {
    if x.is_nan() || (x == f32::INFINITY && up) || (x == f32::NEG_INFINITY && !up) {
        return x;
    }
    if x == 0.0 {
        return if up { f32::from_bits(1) } else { -f32::from_bits(1) };
    }
    let b = x.to_bits();
    f32::from_bits(if (x > 0.0) == up { b + 1 } else { b - 1 })
}
fn lib_next<F: geo_booleanop::boolean::Float>(x: F, up: bool) -> F {
    x.nextafter(up)
}

/// the next-representable-value helper of both instantiations against an independent bit-level implementation
pub fn c10_nextafter(rng: &mut Rng, n: usize) -> Result<u64, Fail> {
    let mut checked = 0;
    let specials64 = [0.0f64, -0.0, 1.0, -1.0, f64::MIN_POSITIVE, -f64::MIN_POSITIVE, f64::from_bits(1), -f64::from_bits(1), f64::MAX, -f64::MAX, 2.0, 0.5, -2.0, 1.0 - f64::EPSILON / 2.0, 4503599627370496.0];
    let specials32 = [0.0f32, -0.0, 1.0, -1.0, f32::MIN_POSITIVE, -f32::MIN_POSITIVE, f32::from_bits(1), -f32::from_bits(1), f32::MAX, -f32::MAX, 2.0, 0.5, -2.0, 16777216.0];
    for i in 0..n {
        let x64 = if i < specials64.len() { specials64[i] } else { f64::from_bits(rng.next()) };
        let x32 = if i < specials32.len() { specials32[i] } else { f32::from_bits(rng.next() as u32) };
        for up in [true, false] {
            if !x64.is_nan() && x64.is_finite() {
                let (got, want) = (lib_next(x64, up), next_bits64(x64, up));
                checked += 1;
                if got.to_bits() != want.to_bits() && !(got == 0.0 && want == 0.0) {
                    return Err(("f64:nextafter".into(), format!("nextafter({:e}, up={}) = {:e} (bits {:x}), expected {:e} (bits {:x})", x64, up, got, got.to_bits(), want, want.to_bits())));
                }
            }
            if !x32.is_nan() && x32.is_finite() {
                let (got, want) = (lib_next(x32, up), next_bits32(x32, up));
                checked += 1;
                if got.to_bits() != want.to_bits() && !(got == 0.0 && want == 0.0) {
                    return Err(("f32:nextafter".into(), format!("nextafter({:e}f32, up={}) = {:e} (bits {:x}), expected {:e} (bits {:x})", x32, up, got, got.to_bits(), want, want.to_bits())));
                }
            }
        }
    }
    Ok(checked)
}

fn ulp_step32(x: f32, k: i32) -> f32 {
    let mut v = x;
    for _ in 0..k.abs() {
        v = next_bits32(v, k > 0);
    }
    v
}
fn ulp_step64(x: f64, k: i32) -> f64 {
    let mut v = x;
    for _ in 0..k.abs() {
        v = next_bits64(v, k > 0);
    }
    v
}

/// The orientation predicate as exposed by SweepEvent::is_below / is_above, on nearly collinear triples, in both
/// instantiations, against the exact sign (f32 widens to f64 exactly; robust::orient2d is exact on f64).
pub fn c10_orientation(rng: &mut Rng, n: usize) -> Result<u64, Fail> {
    use geo_booleanop::boolean::sweep_event::SweepEvent;
    use geo_types::Coord;
    use std::rc::{Rc, Weak};
    let mut checked = 0;
    for i in 0..n {
        let mag = [1.0f64, 1e-3, 1e3, 1e6, 37.0][rng.below(5) as usize];
        let a = ((rng.unit() * 2.0 - 1.0) * mag, (rng.unit() * 2.0 - 1.0) * mag);
        // a long and a short reference segment from the same point
        let len = [1.0, 1e-3, 1e3][rng.below(3) as usize];
        let b = (a.0 + rng.unit() * mag * len, a.1 + (rng.unit() * 2.0 - 1.0) * mag * len);
        let t = [0.5, 0.001, 0.999, 2.0, 1000.0, -0.5][rng.below(6) as usize] * rng.unit();
        let p = (a.0 + t * (b.0 - a.0), a.1 + t * (b.1 - a.1));
        let k = rng.range(-3, 3) as i32;
        if i % 2 == 0 {
            let (a32, b32) = ((a.0 as f32, a.1 as f32), (b.0 as f32, b.1 as f32));
            let p32 = (p.0 as f32, ulp_step32(p.1 as f32, k));
            if a32 == b32 {
                continue;
            }
            let (l, r) = if (a32.0, a32.1) < (b32.0, b32.1) { (a32, b32) } else { (b32, a32) };
            let right = SweepEvent::<f32>::new_rc(0, Coord { x: r.0, y: r.1 }, false, Weak::new(), true, true);
            let left = SweepEvent::<f32>::new_rc(0, Coord { x: l.0, y: l.1 }, true, Rc::downgrade(&right), true, true);
            right.set_other_event(&left);
            let sign = orient((l.0 as f64, l.1 as f64), (r.0 as f64, r.1 as f64), (p32.0 as f64, p32.1 as f64));
            let q = Coord { x: p32.0, y: p32.1 };
            checked += 1;
            if left.is_below(q) != (sign > 0) || left.is_above(q) != (sign <= 0) || right.is_below(q) != (sign > 0) {
                return Err(("f32:orientation".into(), format!("f32 segment {:?}-{:?}, point {:?}: is_below={} (from the right event: {}) but the exact orientation sign is {}", l, r, p32, left.is_below(q), right.is_below(q), sign)));
            }
        } else {
            let p64 = (p.0, ulp_step64(p.1, k));
            if a == b {
                continue;
            }
            let (l, r) = if a < b { (a, b) } else { (b, a) };
            let right = SweepEvent::<f64>::new_rc(0, Coord { x: r.0, y: r.1 }, false, Weak::new(), true, true);
            let left = SweepEvent::<f64>::new_rc(0, Coord { x: l.0, y: l.1 }, true, Rc::downgrade(&right), true, true);
            right.set_other_event(&left);
            let sign = orient(l, r, p64);
            let q = Coord { x: p64.0, y: p64.1 };
            checked += 1;
            if left.is_below(q) != (sign > 0) || left.is_above(q) != (sign <= 0) || right.is_below(q) != (sign > 0) {
                return Err(("f64:orientation".into(), format!("f64 segment {:?}-{:?}, point {:?}: is_below={} but the exact orientation sign is {}", l, r, p64, left.is_below(q), sign)));
            }
        }
    }
    Ok(checked)
}

pub fn c10_worker(ctx: &mut Ctx) {
    {
        let mut rng = ctx.rng("orientation", ctx.shard);
        ctx.begin("orientation", ctx.shard, "");
        match c10_orientation(&mut rng, 400_000) {
            Ok(n) => ctx.cnt("near_collinear_orientation_queries_compared_with_exact_sign", n),
            Err((sym, detail)) => ctx.violation(&sym, &detail, json!({"kind": "orientation", "property": "C10", "seed": ctx.seed, "shard": ctx.shard})),
        }
        ctx.end();
    }
    {
        let mut rng = ctx.rng("nextafter", ctx.shard);
        ctx.begin("nextafter", ctx.shard, "");
        match c10_nextafter(&mut rng, 200_000) {
            Ok(n) => ctx.cnt("nextafter_values_compared_with_bit_level_reference", n),
            Err((sym, detail)) => ctx.violation(&sym, &detail, json!({"kind": "nextafter", "property": "C10", "seed": ctx.seed, "shard": ctx.shard})),
        }
        ctx.end();
    }
    let total = ctx.count(60_000, 3_000_000);
    let mut counts = std::collections::BTreeMap::new();
    for i in ctx.my_indices(total) {
        if ctx.out_of_time() {
            break;
        }
        let mut rng = ctx.rng("f32", i);
        // families that are representable in f32
        let size = ctx.size();
        let (grid, lat, tri, star_n) = if size <= 1 { (7, 4, 5, 12) } else { (12, 7, 8, 24) };
        let mut rej = 0;
        let case = match rng.below(9) {
            0..=2 => gen_rect(&mut rng, grid),
            3..=5 => gen_lattice(&mut rng, lat),
            6 => gen_tri(&mut rng, tri, true),
            8 => gen_shallow_upto(&mut rng, 14),
            _ => gen_general_retry(&mut rng, star_n, 0.0, true, false, &mut rej),
        };
        ctx.cnt("generator_rejections_outside_robust_domain", rej);
        ctx.cnt(&format!("family:{}", case.family), 1);
        if let Err(e) = self_test(&case) {
            ctx.notes.push(format!("HARNESS-ERROR {}", e));
            ctx.cnt("harness_errors", 1);
            continue;
        }
        ctx.begin("f32", i, "");
        ctx.evaluations += 1;
        if let Err((sym, detail)) = c10_check(&case, &mut counts) {
            ctx.violation(&sym, &detail, boolean_replay("C10", &case, None, true, Pairing::MM, json!({})));
        }
        if nontrivial(&case) {
            ctx.note_nontrivial(case_hash(&case, ""));
        }
        ctx.end();
        if i % 997 == 0 {
            ctx.sample(case_brief(&case));
        }
    }
    for (k, v) in counts {
        ctx.cnt(&k, v);
    }
    ctx.monitor.insert("hook_hits".into(), json!(hits_map()));
}

// ------------------------------------------------------------------------------------------
// C11: results are acceptable operands

pub struct Triple {
    pub case: Case,
    pub c: MP,
    /// face centroids with membership in A, B, C
    pub faces3: Vec<(Pt, bool, bool, bool)>,
}

pub fn gen_triple(rng: &mut Rng, size: usize) -> Triple {
    // build A,B with one of the exact generators, then a third selection on the same tessellation: re-generate
    // deterministically by drawing the tessellation here
    let lattice = rng.below(2) == 0;
    let (w, h) = if lattice { (rng.range(1, if size <= 1 { 4 } else { 6 }) as usize, rng.range(1, if size <= 1 { 4 } else { 6 }) as usize) } else { (rng.range(1, if size <= 1 { 6 } else { 10 }) as usize, rng.range(1, if size <= 1 { 6 } else { 10 }) as usize) };
    let t = if lattice { Tess::union_jack(w, h) } else { Tess::grid(w, h) };
    let nf = t.faces.len();
    let dens = |rng: &mut Rng| -> Vec<bool> {
        let d = rng.range(20, 80) as u64;
        (0..nf).map(|_| rng.below(100) < d).collect()
    };
    let (sa, sb, sc) = (dens(rng), dens(rng), dens(rng));
    let (ma, mb, mc) = (rng.below(4) != 0, rng.below(4) != 0, rng.below(4) != 0);
    let map = |p: P| -> Pt { (p.0 as f64, p.1 as f64) };
    let a = t.to_mp(&sa, ma, &map);
    let b = t.to_mp(&sb, mb, &map);
    let c = t.to_mp(&sc, mc, &map);
    let faces3 = (0..nf).map(|f| (t.centroid(f, &map), sa[f], sb[f], sc[f])).collect::<Vec<_>>();
    let faces = faces3.iter().map(|&(p, x, y, _)| (p, x, y)).collect();
    Triple {
        case: Case { family: if lattice { "D2-lattice" } else { "D1-rect" }, desc: format!("{}x{} three selections", w, h), a, b, exact: true, exact_f32: true, integer: true, f32_ok: true, self_crossing: false, faces },
        c,
        faces3,
    }
}

/// float variant: three selections on one jittered triangulation (shared vertices bit-identical, no T contacts);
/// only chains with the independent third operand are demanded (re-using an operand makes every boundary of the
/// intermediate result coincide with input boundaries at computed coordinates)
pub fn gen_triple_float(rng: &mut Rng, size: usize) -> Triple {
    let dim = if size <= 1 { 4 } else { 7 };
    let (w, h) = (rng.range(1, dim) as usize, rng.range(1, dim) as usize);
    let t = Tess::tri_grid(rng, w, h);
    let nf = t.faces.len();
    let dens = |rng: &mut Rng| -> Vec<bool> {
        let d = rng.range(20, 80) as u64;
        (0..nf).map(|_| rng.below(100) < d).collect()
    };
    let (sa, sb, sc) = (dens(rng), dens(rng), dens(rng));
    let scale = [1.0, 1e-3, 1e4][rng.below(3) as usize];
    let mut jit: std::collections::HashMap<P, Pt> = std::collections::HashMap::new();
    for y in 0..=h as i64 {
        for x in 0..=w as i64 {
            jit.insert((x, y), ((x as f64 + (rng.unit() - 0.5) * 0.4) * scale * 1.2345678, (y as f64 + (rng.unit() - 0.5) * 0.4) * scale * 0.87654321));
        }
    }
    let map = |p: P| -> Pt { jit[&p] };
    let a = t.to_mp(&sa, false, &map);
    let b = t.to_mp(&sb, false, &map);
    let c = t.to_mp(&sc, false, &map);
    let faces3 = (0..nf).map(|f| (t.centroid(f, &map), sa[f], sb[f], sc[f])).collect::<Vec<_>>();
    let faces = faces3.iter().map(|&(p, x, y, _)| (p, x, y)).collect();
    Triple { case: Case { family: "D4-tri", desc: format!("{}x{} jittered triangulation, three selections", w, h), a, b, exact: false, exact_f32: false, integer: false, f32_ok: false, self_crossing: false, faces }, c, faces3 }
}

pub fn c11_check_float(t: &Triple, counts: &mut std::collections::BTreeMap<String, u64>) -> Result<(), Fail> {
    let (a, b, c) = (&t.case.a, &t.case.b, &t.c);
    for op1 in OPS {
        let r1 = run(a, b, op1, false)?;
        for op2 in OPS {
            for (name, r2, flip) in [("(A op B) op' C", run(&r1, c, op2, false)?, false), ("C op' (A op B)", run(c, &r1, op2, false)?, true)] {
                *counts.entry(format!("float-chains:{}", name)).or_insert(0) += 1;
                for &(p, x, y, z) in &t.faces3 {
                    let want = if flip { op2.apply(z, op1.apply(x, y)) } else { op2.apply(op1.apply(x, y), z) };
                    if in_mp(&r2, p.0, p.1) != want {
                        return Err(("chain".into(), format!("{} with op={} op'={} on a float triangulation: face centroid {:?} (A={},B={},C={}) should be {} but is {}", name, op1.name(), op2.name(), p, x, y, z, want, !want)));
                    }
                }
            }
        }
    }
    Ok(())
}

thread_local! {
    static PAIRING_ROTOR: std::cell::Cell<usize> = const { std::cell::Cell::new(0) };
}

/// chained calls go through whichever of the four trait implementations the operand shapes allow, in rotation
fn run_chain(a: &MP, b: &MP, op: Op) -> Result<MP, Fail> {
    let applicable: Vec<Pairing> = PAIRINGS.iter().cloned().filter(|p| p.applicable(a, b)).collect();
    let k = PAIRING_ROTOR.with(|r| {
        r.set(r.get() + 1);
        r.get()
    });
    run_any(a, b, op, false, applicable[k % applicable.len()]).map_err(fail_of)
}

pub fn c11_check(t: &Triple, counts: &mut std::collections::BTreeMap<String, u64>) -> Result<(), Fail> {
    if !t.case.exact {
        return c11_check_float(t, counts);
    }
    let (a, b, c) = (&t.case.a, &t.case.b, &t.c);
    for op1 in OPS {
        let r1 = run(a, b, op1, false)?;
        // the intermediate result is an operand now: it must be a valid polygon set made of input geometry
        let w = witnesses(&t.case, 0.0);
        check_structure(&r1, &w, true, &mut StructStats::default()).map_err(|m| ("chain:intermediate-structure".to_string(), format!("{}: {}", op1.name(), m)))?;
        check_provenance(&t.case, &r1, 0.0, !bboxes_disjoint(a, b), &mut ProvStats::default()).map_err(|m| ("chain:intermediate-provenance".to_string(), format!("{}: {}", op1.name(), m)))?;
        for op2 in OPS {
            let variants: [(&str, MP, Box<dyn Fn(bool, bool, bool) -> bool>); 4] = [
                ("(A op B) op' C", run_chain(&r1, c, op2)?, Box::new(move |x, y, z| op2.apply(op1.apply(x, y), z))),
                ("C op' (A op B)", run_chain(c, &r1, op2)?, Box::new(move |x, y, z| op2.apply(z, op1.apply(x, y)))),
                ("(A op B) op' B", run_chain(&r1, b, op2)?, Box::new(move |x, y, _| op2.apply(op1.apply(x, y), y))),
                ("A op' (A op B)", run_chain(a, &r1, op2)?, Box::new(move |x, y, _| op2.apply(x, op1.apply(x, y)))),
            ];
            for (name, r2, f) in variants.iter() {
                *counts.entry(format!("chains:{}", name)).or_insert(0) += 1;
                for &(p, x, y, z) in &t.faces3 {
                    let want = f(x, y, z);
                    if in_mp(r2, p.0, p.1) != want {
                        return Err((
                            "chain".into(),
                            format!("{} with op={} op'={}: face centroid {:?} (A={},B={},C={}) should be {} but is {}", name, op1.name(), op2.name(), p, x, y, z, want, !want),
                        ));
                    }
                }
            }
        }
    }
    Ok(())
}

pub fn c11_worker(ctx: &mut Ctx) {
    let total = ctx.count(12_000, 600_000);
    let mut counts = std::collections::BTreeMap::new();
    for i in ctx.my_indices(total) {
        if ctx.out_of_time() {
            break;
        }
        let mut rng = ctx.rng("triple", i);
        let t = if i % 4 == 3 { gen_triple_float(&mut rng, ctx.size()) } else { gen_triple(&mut rng, ctx.size()) };
        ctx.cnt(&format!("family:{}", t.case.family), 1);
        ctx.begin("triple", i, "");
        ctx.evaluations += 1;
        if let Err((sym, detail)) = c11_check(&t, &mut counts) {
            ctx.violation(&sym, &detail, json!({"kind": "triple", "property": "C11", "case": case_to_json(&t.case), "c": mp_to_json(&t.c),
                "faces3": t.faces3.iter().map(|(p, x, y, z)| json!([p.0, p.1, x, y, z])).collect::<Vec<_>>()}));
        }
        if nontrivial(&t.case) {
            ctx.note_nontrivial(case_hash(&t.case, &format!("{:?}", t.c)));
        }
        ctx.end();
        if i % 997 == 0 {
            ctx.sample(json!({"a": mp_to_json(&t.case.a), "b": mp_to_json(&t.case.b), "c": mp_to_json(&t.c)}));
        }
    }
    for (k, v) in counts {
        ctx.cnt(&k, v);
    }
    ctx.monitor.insert("hook_hits".into(), json!(hits_map()));
}

pub fn triple_from_json(v: &Value) -> Triple {
    Triple {
        case: case_from_json(&v["case"]),
        c: mp_from_json(&v["c"]),
        faces3: v["faces3"].as_array().unwrap().iter().map(|f| ((crate::util::vf(&f[0]), crate::util::vf(&f[1])), f[2].as_bool().unwrap(), f[3].as_bool().unwrap(), f[4].as_bool().unwrap())).collect(),
    }
}

// ------------------------------------------------------------------------------------------
// C12: pure and deterministic

use geo_booleanop::boolean::BooleanOp;
use geo_types::MultiPolygon;
use std::sync::{Arc, Mutex};

fn bits_of(mp: &MultiPolygon<f64>) -> Vec<u64> {
    let mut v = Vec::new();
    for p in &mp.0 {
        v.push(u64::MAX);
        for r in std::iter::once(p.exterior()).chain(p.interiors().iter()) {
            v.push(u64::MAX - 1);
            for c in &r.0 {
                v.push(c.x.to_bits());
                v.push(c.y.to_bits());
            }
        }
    }
    v
}

fn hash_bits(v: &[u64]) -> u64 {
    let mut h = crate::util::Hasher128::default();
    for x in v {
        h.u64(*x);
    }
    h.low()
}

thread_local! {
    /// hashes of the distinct completion orders (thread id sequences) seen in the concurrent histories of this worker
    static SEEN_ORDERS: std::cell::RefCell<std::collections::HashSet<u64>> = std::cell::RefCell::new(std::collections::HashSet::new());
}

pub fn c12_check(case: &Case, rng: &mut Rng, threads: usize, reps: usize, calls_per_thread: usize, counts: &mut std::collections::BTreeMap<String, u64>) -> Result<(), Fail> {
    let ga: MultiPolygon<f64> = to_geo(&case.a);
    let gb: MultiPolygon<f64> = to_geo(&case.b);
    let (a_bits, b_bits) = (bits_of(&ga), bits_of(&gb));
    let n = case.n_edges();
    let mut reference: Vec<Vec<u64>> = Vec::new();
    for op in OPS {
        let r = guarded(n, || ga.boolean(&gb, lib_op(op))).map_err(fail_of)?;
        reference.push(bits_of(&r));
        if bits_of(&ga) != a_bits || bits_of(&gb) != b_bits {
            return Err(("purity".into(), format!("{} modified one of its operands", op.name())));
        }
    }
    *counts.entry("operand-snapshots-compared".into()).or_insert(0) += 8;
    // the same object on both sides must give what an equal copy gives (no dependence on operand identity/addresses);
    // only for valid operands: A op A of a self-crossing or self-overlapping operand is outside the robust domains
    if !case.self_crossing && case.family != "S-shared-edge-members" {
        let ga_copy = ga.clone();
        for op in OPS {
            let same = guarded(n, || ga.boolean(&ga, lib_op(op))).map_err(fail_of)?;
            let copy = guarded(n, || ga.boolean(&ga_copy, lib_op(op))).map_err(fail_of)?;
            *counts.entry("self-vs-equal-copy-comparisons".into()).or_insert(0) += 1;
            if bits_of(&same) != bits_of(&copy) {
                return Err(("determinism".into(), format!("{} of an operand with itself (same object) differs from {} with an equal copy", op.name(), op.name())));
            }
            if ga.0.len() == 1 {
                let p_same = guarded(n, || ga.0[0].boolean(&ga.0[0], lib_op(op))).map_err(fail_of)?;
                if bits_of(&p_same) != bits_of(&copy) {
                    return Err(("determinism".into(), format!("{} of a polygon with itself (same object) differs from {} of equal multipolygons", op.name(), op.name())));
                }
            }
        }
    }
    // repeated calls, after unrelated operations and heap perturbation
    for rep in 0..reps {
        // unrelated work in between: another operation on other data, allocations of random sizes
        let mut junk: Vec<Vec<u8>> = Vec::new();
        for _ in 0..rng.below(8) {
            junk.push(vec![0u8; rng.below(4096) as usize + 1]);
        }
        if rep % 2 == 1 {
            let other = c02_constructed(rng.below(6));
            let _ = run(&other.a, &other.b, *rng.pick(&OPS), false)?;
        }
        if rng.below(2) == 0 {
            junk.clear();
        }
        for (oi, op) in OPS.iter().enumerate() {
            let r = guarded(n, || ga.boolean(&gb, lib_op(*op))).map_err(fail_of)?;
            *counts.entry("repeated-calls".into()).or_insert(0) += 1;
            if bits_of(&r) != reference[oi] {
                return Err(("determinism".into(), format!("{} returned a different result when called again (repetition {})", op.name(), rep)));
            }
        }
        drop(junk);
    }
    // equal operands in another spelling: +0.0 and -0.0 are equal coordinates; operands that differ only in the sign of
    // their zeros are equal operands and must give equal results (compared as values)
    {
        let mut flips = 0u32;
        let mut flip = |c: &mut geo_types::Coord<f64>, rng: &mut Rng| {
            for v in [&mut c.x, &mut c.y] {
                if *v == 0.0 && rng.below(2) == 0 {
                    *v = -*v;
                    flips += 1;
                }
            }
        };
        let (mut za, mut zb) = (ga.clone(), gb.clone());
        for mp in [&mut za, &mut zb] {
            for poly in mp.0.iter_mut() {
                poly.exterior_mut(|ls| ls.0.iter_mut().for_each(|c| flip(c, rng)));
                poly.interiors_mut(|rs| rs.iter_mut().for_each(|ls| ls.0.iter_mut().for_each(|c| flip(c, rng))));
            }
        }
        // rings must stay closed: a flipped first vertex and its closing copy are equal as values, which is what closure means
        if flips > 0 {
            for (oi, op) in OPS.iter().enumerate() {
                let r = guarded(n, || za.boolean(&zb, lib_op(*op))).map_err(fail_of)?;
                *counts.entry("signed-zero-respellings-compared".into()).or_insert(0) += 1;
                let r0: MultiPolygon<f64> = {
                    // the reference result, re-created from its bit pattern
                    guarded(n, || ga.boolean(&gb, lib_op(*op))).map_err(fail_of)?
                };
                debug_assert_eq!(bits_of(&r0), reference[oi]);
                if r != r0 {
                    return Err(("determinism".into(), format!("{} returns a different result when some zero coordinates of the operands are written -0.0 instead of 0.0 (equal operands)", op.name())));
                }
            }
        }
    }
    // in-place edits: the result is a function of the current coordinate values only - not of where the operand lives,
    // how long its rings are, its bounding box, or what was computed from the same buffers before
    if reps > 0 {
        let mut gm = ga.clone();
        for op in OPS {
            let before = guarded(n, || gm.boolean(&gb, lib_op(op)));
            // move one vertex that attains no bounding-box extreme halfway towards the midpoint of its neighbours
            let Some((lo, hi)) = bbox(&from_geo(&gm)) else { break };
            let mut edited = false;
            'search: for _ in 0..8 {
                if gm.0.is_empty() {
                    break;
                }
                let pi = rng.below(gm.0.len() as u64) as usize;
                let len = gm.0[pi].exterior().0.len();
                if len < 5 {
                    continue;
                }
                let vi = 1 + rng.below(len as u64 - 2) as usize;
                let (p, a, b) = (gm.0[pi].exterior().0[vi], gm.0[pi].exterior().0[vi - 1], gm.0[pi].exterior().0[vi + 1]);
                if p.x == lo.0 || p.x == hi.0 || p.y == lo.1 || p.y == hi.1 {
                    continue;
                }
                let q = geo_types::Coord { x: (p.x * 2.0 + a.x + b.x) / 4.0, y: (p.y * 2.0 + a.y + b.y) / 4.0 };
                if q == p {
                    continue;
                }
                gm.0[pi].exterior_mut(|ls| ls.0[vi] = q);
                edited = true;
                break 'search;
            }
            if !edited {
                continue;
            }
            // the edit may make the operand invalid (results then need not be meaningful, the call may even fail) -
            // but whatever happens must be what a fresh thread gets for equal copies
            let after = guarded(n, || gm.boolean(&gb, lib_op(op)));
            let (gm2, gb2) = (gm.clone(), gb.clone());
            let fresh = std::thread::spawn(move || guarded(n, || gm2.boolean(&gb2, lib_op(op)))).join().map_err(|_| ("harness".to_string(), "reference thread panicked".to_string()))?;
            *counts.entry("in-place-edit-comparisons".into()).or_insert(0) += 1;
            let _ = before;
            match (after, fresh) {
                (Ok(x), Ok(y)) => {
                    if bits_of(&x) != bits_of(&y) {
                        return Err(("determinism".into(), format!("{} after an in-place edit of one vertex returned a result different from the same call on equal copies in a fresh thread (stale state from the call before the edit?)", op.name())));
                    }
                }
                (Err(_), Err(_)) => {}
                (x, y) => {
                    return Err(("determinism".into(), format!("{} after an in-place edit: one of the two equal calls failed and the other did not ({:?} vs {:?})", op.name(), x.is_ok(), y.is_ok())));
                }
            }
        }
    }
    // from thread-local destructors: "in which thread" includes a thread that is shutting down. One guard is registered
    // before the library was first used in that thread and one after, so that whatever per-thread state the library keeps
    // has already been destroyed for one of them, whichever order the runtime uses.
    if reps > 0 && rng.below(8) == 0 {
        use std::sync::mpsc;
        struct RunAtThreadExit {
            a: MultiPolygon<f64>,
            b: MultiPolygon<f64>,
            n: usize,
            tx: mpsc::Sender<Vec<Option<Vec<u64>>>>,
        }
        impl Drop for RunAtThreadExit {
            fn drop(&mut self) {
                let mut out = Vec::new();
                for op in OPS {
                    let (a, b, n) = (&self.a, &self.b, self.n);
                    out.push(guarded(n, || a.boolean(b, lib_op(op))).ok().map(|r| bits_of(&r)));
                }
                let _ = self.tx.send(out);
            }
        }
        thread_local! {
            static EARLY: std::cell::RefCell<Option<RunAtThreadExit>> = const { std::cell::RefCell::new(None) };
            static LATE: std::cell::RefCell<Option<RunAtThreadExit>> = const { std::cell::RefCell::new(None) };
        }
        let (tx, rx) = mpsc::channel();
        let (ta, tb) = (ga.clone(), gb.clone());
        let h = std::thread::spawn(move || {
            EARLY.with(|s| *s.borrow_mut() = Some(RunAtThreadExit { a: ta.clone(), b: tb.clone(), n, tx: tx.clone() }));
            let _ = guarded(n, || ta.boolean(&tb, lib_op(Op::Union)));
            LATE.with(|s| *s.borrow_mut() = Some(RunAtThreadExit { a: ta.clone(), b: tb.clone(), n, tx }));
        });
        let _ = h.join();
        let mut got = 0;
        while let Ok(results) = rx.recv_timeout(std::time::Duration::from_secs(60)) {
            got += 1;
            *counts.entry("calls-from-thread-local-destructors".into()).or_insert(0) += 4;
            for (oi, r) in results.iter().enumerate() {
                match r {
                    Some(bits) if *bits == reference[oi] => {}
                    Some(_) => return Err(("determinism".into(), format!("{} called from a thread-local destructor returned a different result", OPS[oi].name()))),
                    None => return Err(("determinism".into(), format!("{} called from a thread-local destructor (thread shutting down) failed although the same call succeeds elsewhere", OPS[oi].name()))),
                }
            }
            if got == 2 {
                break;
            }
        }
        if got != 2 {
            return Err(("harness".into(), format!("only {} of the 2 thread-exit guards reported", got)));
        }
    }
    // concurrently from several threads on shared operands; history of (thread, call, input hash, output hash)
    if threads > 0 {
        let ga = Arc::new(ga);
        let gb = Arc::new(gb);
        let history: Arc<Mutex<Vec<(usize, usize, u64, u64)>>> = Arc::new(Mutex::new(Vec::new()));
        let in_hash = hash_bits(&a_bits) ^ hash_bits(&b_bits).rotate_left(1);
        let mut handles = Vec::new();
        for t in 0..threads {
            let (ga, gb, history) = (ga.clone(), gb.clone(), history.clone());
            handles.push(std::thread::spawn(move || -> Result<(), String> {
                for call in 0..calls_per_thread {
                    let op = OPS[(t + call) % 4];
                    let r = std::panic::catch_unwind(std::panic::AssertUnwindSafe(|| ga.boolean(&*gb, lib_op(op)))).map_err(|_| format!("panic in thread {}", t))?;
                    let out = hash_bits(&bits_of(&r));
                    history.lock().unwrap().push((t, call, in_hash ^ (op as u64), out));
                }
                Ok(())
            }));
        }
        for h in handles {
            h.join().map_err(|_| ("determinism".to_string(), "thread panicked".to_string()))?.map_err(|m| ("determinism".to_string(), m))?;
        }
        if bits_of(&ga) != a_bits || bits_of(&gb) != b_bits {
            return Err(("purity".into(), "operands changed during concurrent calls".into()));
        }
        // offline history check: every input hash maps to exactly one output hash, and to the single-threaded one
        let hist = history.lock().unwrap();
        *counts.entry("concurrent-calls-in-history".into()).or_insert(0) += hist.len() as u64;
        // which interleavings were actually seen: the order in which the threads' calls completed
        let order: Vec<u8> = hist.iter().map(|h| h.0 as u8).collect();
        let overlapped = order.windows(2).filter(|w| w[0] > w[1]).count() > 0;
        if overlapped {
            *counts.entry("concurrent-histories-with-interleaved-completions".into()).or_insert(0) += 1;
        }
        SEEN_ORDERS.with(|s| {
            s.borrow_mut().insert(crate::util::fnv64(&order));
        });
        for &(t, call, ih, oh) in hist.iter() {
            let op_idx = (0..4).find(|&k| in_hash ^ (OPS[k] as u64) == ih).unwrap();
            if oh != hash_bits(&reference[op_idx]) {
                return Err(("determinism".into(), format!("thread {} call {}: {} returned a result different from the single-threaded one", t, call, OPS[op_idx].name())));
            }
        }
    }
    Ok(())
}

/// A long call history in ONE thread over a pool of operand pairs of different sizes: every result must equal the
/// reference computed for the same pair in a fresh thread (fresh thread-local state). The largest pair recurs at
/// call numbers that are multiples of 255 and 256, so that state keyed by a small wrapping counter meets itself.
pub fn c12_history(rng: &mut Rng, size: usize, calls: usize, counts: &mut std::collections::BTreeMap<String, u64>) -> Result<(), Fail> {
    let mut rej = 0;
    let mut pool: Vec<Case> = (0..6).map(|_| gen_mixed(rng, 0, &mut rej)).collect();
    let big = loop {
        let c = gen_mixed(rng, size.max(1), &mut rej);
        if c.n_edges() >= 40 {
            break c;
        }
    };
    pool.push(big);
    let big_idx = pool.len() - 1;
    // references from fresh threads
    let mut reference: Vec<Vec<u64>> = Vec::new();
    for c in &pool {
        let (a, b) = (c.a.clone(), c.b.clone());
        let hashes = std::thread::spawn(move || -> Result<Vec<u64>, Failure> {
            let mut v = Vec::new();
            for op in OPS {
                let r = run_op::<f64>(&a, &b, op, Pairing::MM)?;
                let mut h = crate::util::Hasher128::default();
                hash_mp(&mut h, &r);
                v.push(h.low());
            }
            Ok(v)
        })
        .join()
        .map_err(|_| ("determinism".to_string(), "reference thread panicked".to_string()))?
        .map_err(fail_of)?;
        reference.push(hashes);
    }
    for call in 0..calls {
        let idx = if call % 255 == 0 || call % 256 == 0 { big_idx } else { rng.below(big_idx as u64) as usize };
        let oi = if idx == big_idx { 1 } else { rng.below(4) as usize };
        let c = &pool[idx];
        let r = run(&c.a, &c.b, OPS[oi], false)?;
        let mut h = crate::util::Hasher128::default();
        hash_mp(&mut h, &r);
        *counts.entry("history-calls".into()).or_insert(0) += 1;
        if h.low() != reference[idx][oi] {
            return Err((
                "determinism".into(),
                format!("call #{} of a single-thread history ({} on pool entry {} with {} edges) returned a result different from the one computed for the same operands in a fresh thread", call, OPS[oi].name(), idx, c.n_edges()),
            ));
        }
    }
    Ok(())
}

pub fn c12_worker(ctx: &mut Ctx) {
    if !ctx.is_slow_variant() || ctx.variant == "tsan" {
        let histories = if ctx.variant == "tsan" { ctx.count(8, 64) } else { ctx.count(64, 3000) };
        let mut counts = std::collections::BTreeMap::new();
        for i in ctx.my_indices(histories) {
            if ctx.out_of_time() {
                break;
            }
            let mut rng = ctx.rng("history", i);
            ctx.begin("history", i, "");
            ctx.evaluations += 1;
            if let Err((sym, detail)) = c12_history(&mut rng, ctx.size(), 1100, &mut counts) {
                ctx.violation(&sym, &detail, json!({"kind": "c12-history", "property": "C12", "seed": ctx.seed, "index": i, "size": ctx.size()}));
            }
            ctx.note_nontrivial(crate::util::fnv64(format!("hist{}-{}", ctx.seed, i).as_bytes()));
            ctx.end();
        }
        for (k, v) in counts {
            ctx.cnt(&k, v);
        }
    }
    // timing probes: the result must not depend on how long the call takes. (1) the same fixed inputs are run in every
    // build variant (the sanitizer builds are 5-50x slower) and the supervisor compares the result hashes across
    // variants; (2) natively, the sweep is stretched to several seconds by a delay injected at hook H1 and the result is
    // compared with the undelayed one.
    if ctx.variant != "miri" && ctx.only_index.is_none() {
        let mut probes = serde_json::Map::new();
        let (a, b) = comb(if ctx.variant == "valgrind" { 1000 } else { 2500 });
        let probe_ops: Vec<Op> = OPS.iter().cloned().filter(|o| (*o as u64) % ctx.nshards.min(4) == ctx.shard % ctx.nshards.min(4)).collect();
        for op in probe_ops {
            ctx.begin("probe", op as u64, "");
            ctx.evaluations += 1;
            match run(&a, &b, op, false) {
                Ok(r) => {
                    let mut h = crate::util::Hasher128::default();
                    hash_mp(&mut h, &r);
                    probes.insert(format!("comb-{}-{}", a.len(), op.name()), json!(format!("{:016x}", h.low())));
                    ctx.cnt("cross_variant_probe_results", 1);
                    if !ctx.is_slow_variant() && ctx.shard < 4 {
                        // at least 20000 sweep events x 150 microseconds = 3 s or more
                        geo_booleanop::verif::set_step_delay(geo_booleanop::verif::Loop::Sweep, 150_000);
                        let t0 = std::time::Instant::now();
                        let slowed = run(&a, &b, op, false);
                        geo_booleanop::verif::set_step_delay(geo_booleanop::verif::Loop::Sweep, 0);
                        ctx.cnt("delayed_sweeps", 1);
                        ctx.max("max_delayed_sweep_ms", t0.elapsed().as_millis() as u64);
                        match slowed {
                            Ok(r2) if r2 == r => {}
                            Ok(_) => ctx.violation("determinism:timing", &format!("{} of a {}-rectangle comb returns a different result when the sweep is slowed down by an injected delay of 150 microseconds per event ({} ms in total)", op.name(), a.len(), t0.elapsed().as_millis()), json!({"kind": "generated", "property": "C12", "label": "probe", "index": op as u64, "seed": ctx.seed, "tier": ctx.tier.name(), "variant": ctx.variant})),
                            Err(f) => ctx.violation(&f.0, &format!("{} of a comb fails when the sweep is slowed down: {}", op.name(), f.1), json!({"kind": "generated", "property": "C12", "label": "probe", "index": op as u64, "seed": ctx.seed, "tier": ctx.tier.name(), "variant": ctx.variant})),
                        }
                    }
                }
                Err(f) => ctx.violation(&f.0, &format!("probe {} failed: {}", op.name(), f.1), json!({"kind": "generated", "property": "C12", "label": "probe", "index": op as u64, "seed": ctx.seed, "tier": ctx.tier.name(), "variant": ctx.variant})),
            }
            ctx.end();
        }
        // shallow exact crossings (family D6, fixed generator streams): compared across build variants AND across worker
        // processes whose first library call was f32 (odd shards) or f64 (even shards)
        for k in 0..4u64 {
            let mut prng = Rng::keyed(20260926, "C12/probe-shallow", k);
            let c = gen_shallow(&mut prng);
            let op = OPS[k as usize % 4]; // the same probe in every worker: odd (f32-first) and even (f64-first) shards must agree
            ctx.begin("probe-shallow", k, "");
            ctx.evaluations += 1;
            if let Ok(r) = run(&c.a, &c.b, op, false) {
                let mut h = crate::util::Hasher128::default();
                hash_mp(&mut h, &r);
                probes.insert(format!("shallow-{}-{}", k, op.name()), json!(format!("{:016x}", h.low())));
                ctx.cnt("cross_variant_probe_results", 1);
            }
            ctx.end();
        }
        ctx.monitor.insert("probe_hashes".into(), serde_json::Value::Object(probes));
    }
    let slow = ctx.is_slow_variant();
    let miri = ctx.variant == "miri";
    let total = if miri { ctx.count(8, 64) } else if slow { ctx.count(600, 30_000) } else { ctx.count(6_000, 300_000) };
    let mut counts = std::collections::BTreeMap::new();
    for i in ctx.my_indices(total) {
        if ctx.out_of_time() {
            break;
        }
        let mut rng = ctx.rng("mixed", i);
        let mut rej = 0;
        let case = if miri {
            // whole operations cost seconds under the interpreter: tiny inputs only
            if i % 2 == 0 { gen_rect(&mut rng, 2) } else { gen_lattice(&mut rng, 1) }
        } else if i % 5 == 4 {
            // "for all operands": multipolygons whose members share edges (every selected face is its own polygon);
            // not valid input, results need not be meaningful, but they must still be reproducible
            let base = gen_exact(&mut rng, ctx.size());
            let split = |mp: &MP| -> MP { mp.iter().flat_map(|p| p.iter().map(|r| vec![r.clone()])).collect() };
            let (w, h) = (rng.range(1, 5) as usize, rng.range(1, 5) as usize);
            let t = Tess::grid(w, h);
            let sel: Vec<bool> = (0..w * h).map(|_| rng.below(3) != 0).collect();
            let cells: MP = t.faces.iter().zip(sel.iter()).filter(|(_, s)| **s).map(|(f, _)| {
                let mut r: Ring = f.iter().map(|p| (p.0 as f64, p.1 as f64)).collect();
                r.push(r[0]);
                vec![r]
            }).collect();
            let mut c = base.clone();
            c.family = "S-shared-edge-members";
            c.a = if rng.below(2) == 0 { cells } else { split(&base.a) };
            c.faces = vec![];
            c
        } else {
            gen_mixed(&mut rng, ctx.size(), &mut rej)
        };
        ctx.cnt(&format!("family:{}", case.family), 1);
        ctx.begin("mixed", i, "");
        ctx.evaluations += 1;
        let threads = if miri { 2 } else if i % 4 == 0 { 16 } else { 3 };
        let res = c12_check(&case, &mut rng, threads, if miri { 0 } else { 3 }, if miri { 2 } else { 4 }, &mut counts);
        if case.family == "S-shared-edge-members" && matches!(&res, Err((sym, _)) if sym.starts_with("failure:")) {
            // an invalid operand may make the call fail; only non-reproducibility is a C12 matter
            ctx.cnt("invalid_input_calls_that_failed_reproducibly_or_not_counted", 1);
            ctx.end();
            continue;
        }
        if let Err((sym, detail)) = res {
            if sym == "harness" {
                // the monitor's own plumbing failed (a reference thread died, a guard did not report): inconclusive, not a violation
                ctx.notes.push(format!("HARNESS-ERROR {}", detail));
                ctx.cnt("harness_errors", 1);
            } else {
                ctx.violation(&sym, &detail, boolean_replay("C12", &case, None, false, Pairing::MM, json!({"threads": threads})));
            }
        }
        ctx.note_nontrivial(case_hash(&case, ""));
        ctx.end();
        if i % 997 == 0 {
            ctx.sample(case_brief(&case));
        }
    }
    for (k, v) in counts {
        ctx.cnt(&k, v);
    }
    ctx.cnt("distinct_completion_orders_of_concurrent_calls_seen", SEEN_ORDERS.with(|s| s.borrow().len() as u64));
}
