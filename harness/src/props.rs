//! Property dispatch: which workers run in which build variants, evidence rules, replays.

use crate::ctx::*;
use crate::geom::*;
use crate::monitors::*;
use crate::props_a::*;
use crate::props_b::*;
use crate::props_c::*;
use crate::util::Rng;
use serde_json::Value;

pub fn worker(ctx: &mut Ctx) {
    match ctx.prop.as_str() {
        "C01" => c01_worker(ctx),
        "C02" => c02_worker(ctx),
        "C04" => c04_worker(ctx),
        "C03" => c03_worker(ctx),
        "C05" => c05_worker(ctx),
        "C06" => c06_worker(ctx),
        "C07" => c07_worker(ctx),
        "C08" => c08_worker(ctx),
        "C09" => c09_worker(ctx),
        "C10" => c10_worker(ctx),
        "C11" => c11_worker(ctx),
        "C12" => c12_worker(ctx),
        "C13" => c13_worker(ctx),
        "C14" => c14_worker(ctx),
        "C15" => c15_worker(ctx),
        "C16" => c16_worker(ctx),
        "C17" => c17_worker(ctx),
        "C18" => c18_worker(ctx),
        p => panic!("no worker for {}", p),
    }
}

/// (variant, number of shards)
pub fn plan(prop: &str, _tier: Tier) -> Vec<(String, u64)> {
    let v = |s: &str, n: u64| (s.to_string(), n);
    match prop {
        "C01" | "C02" | "C04" | "C05" | "C06" | "C07" | "C08" | "C09" | "C11" => vec![v("release", 16)],
        // f32 must also hold with debug assertions on (C03's clause, instantiated for f32)
        "C10" => vec![v("release", 12), v("dbg", 4)],
        "C03" => match _tier {
            Tier::Quick => vec![v("release", 8), v("dbg", 8), v("asan", 8), v("miri", 8)],
            Tier::Thorough => vec![v("release", 16), v("dbg", 16), v("asan", 16), v("miri", 16), v("valgrind", 8)],
        },
        "C13" => match _tier {
            Tier::Quick => vec![v("release", 12), v("dbg", 4), v("miri", 4)],
            Tier::Thorough => vec![v("release", 12), v("dbg", 4), v("miri", 16)],
        },
        "C14" | "C15" => vec![v("release", 12), v("dbg", 4)],
        "C16" => vec![v("release", 14), v("dbg", 2)],
        "C17" => match _tier {
            Tier::Quick => vec![v("release", 8), v("dbg", 4), v("asan", 8), v("miri", 8)],
            Tier::Thorough => vec![v("release", 16), v("dbg", 8), v("asan", 16), v("miri", 16), v("valgrind", 8)],
        },
        "C18" => vec![v("release", 16), v("dev", 16)],
        "C12" => match _tier {
            Tier::Quick => vec![v("release", 8), v("tsan", 8), v("miri", 8)],
            Tier::Thorough => vec![v("release", 16), v("tsan", 16), v("miri", 16)],
        },
        _ => vec![],
    }
}

/// minimum number of evaluations below which a run is inconclusive (far below what any seed produces)
pub fn floor(prop: &str, tier: Tier) -> u64 {
    let _ = tier;
    match prop {
        "C18" => 20,
        _ => 1000,
    }
}

pub fn rule(prop: &str) -> (String, Vec<String>) {
    let domains = "operands are unions of faces of a tessellation (D1 rectilinear grid, D2 octilinear lattice, D4 jittered triangulation: truth known by construction) or polygons in general position (D3 float, D5 integer, incl. self-crossing rings read even-odd: truth from an independent crossing-number oracle)";
    let common = vec![
        "inputs stay inside the robust domains D1-D5 described in DESIGN.md; near-degenerate float contact outside them is only exercised through the listed known findings".to_string(),
        "exact predicates on doubles come from the third-party `robust` crate and i128 arithmetic".to_string(),
        "held on the executions listed here; nothing is proved".to_string(),
    ];
    let r = match prop {
        "C01" => format!("one evaluation = one Boolean operation through one of the four trait pairings, compared with op(inA,inB) at >=1 witness point per arrangement face; {}; non-trivial = both operands non-empty with overlapping bounding boxes (the full sweep runs); distinct = hash of (operand coordinates, operation, pairing)", domains),
        "C02" => format!("one evaluation = one Boolean operation whose returned polygon set is validated structurally (every boundary edge separates 'inside exactly its own polygon' from 'inside no polygon', holes inside their exterior and outside siblings, no boundary piece used twice, polygon-by-polygon reading == even-odd reading at every witness); shared-edge families weighted up plus constructed stacks/touching/nesting configurations; {}; non-trivial = full sweep runs; distinct = hash of (operands, operation)", domains),
        "C04" => format!("one evaluation = one Boolean operation whose result edges/vertices/rings are traced back to the inputs (edge on an input edge; vertex bit-identical to an input vertex or at the exact rational / tolerance intersection of two input edges; closed, >=3 distinct vertices, non-zero area, CCW when assembled); {}; non-trivial = full sweep runs; distinct = hash of (operands, operation)", domains),
        "C05" => format!("one evaluation = one operand pair on which intersection, union, A-B, B-A and xor are computed and compared with each other at every witness point and through the three area identities (exactly on exact families); {}; non-trivial = full sweep runs; distinct = hash of operands", domains),
        "C03" => format!("one evaluation = one Boolean call (f64 or f32) with step budgets armed (sweep events <= 4n^2+8n+64 for n input edges, bubble passes and contour steps bounded by the same), run in release, debug-assertion, AddressSanitizer, Miri (Tree Borrows) and (thorough) valgrind builds; panic, budget excess, signal or sanitizer report = violation; {}; plus degenerate operands (empty, empty rings, repeated vertices) and 10^5..10^6-edge combs/checkerboards; every case counts as non-trivial (any input may fail to return); distinct = hash of (operands, operation, float type)", domains),
        "C06" => format!("one evaluation = one operand pair on which commutativity (ring sets on exact families, regions otherwise), A op A, empty operands in two encodings, and disjoint / touching bounding boxes are checked; {}; non-trivial = full sweep runs on the base pair; distinct = hash of operands", domains),
        "C07" => format!("one evaluation = one operand pair re-represented three times (ring start, direction, order of parts and holes, repeated vertices) x 4 operations, plus the three other trait pairings and the named methods; regions compared everywhere, canonical ring sets on exact families, pairings bit for bit; {}; non-trivial = full sweep runs; distinct = hash of operands", domains),
        "C08" => format!("one evaluation = one operand pair x (two random power-of-two scalings compared bit for bit, one integer translation on exact families compared as canonical polygon sets, the 7 non-trivial axis symmetries compared as regions at transformed witnesses) x 4 operations; {}; non-trivial = full sweep runs; distinct = hash of operands", domains),
        "C09" => format!("one evaluation = one operand pair x 8 placements of a far triangle (4 sides x subject/clipping) x 4 operations compared as canonical ring sets with the part's own contribution, plus shortcut-vs-sweep on the same geometry; hook counters show how often the trivial path and the early break were taken; {}; non-trivial = full sweep runs on the base pair; distinct = hash of operands", domains),
        "C10" => format!("one evaluation = one f32-representable operand pair on which the C01/C02/C04/C05 monitors run with MultiPolygon<f32>, and on exact small-integer inputs the f32 result is compared coordinate for coordinate with the f64 result; {}; non-trivial = full sweep runs; distinct = hash of operands", domains),
        "C11" => "one evaluation = one triple (A,B,C) of regions on one exact tessellation (D1 grid / D2 lattice) x 16 operation pairs x 4 chain shapes ((A op B) op' C, C op' (A op B), (A op B) op' B, A op' (A op B)) compared with the pointwise combination at every face centroid; intermediates validated structurally; non-trivial = full sweep runs on (A,B); distinct = hash of the three operands".to_string(),
        "C12" => format!("one evaluation = one operand pair: bitwise operand snapshots around every call, 4 operations repeated after unrelated operations and heap perturbation, then 3 or 16 threads calling concurrently on Arc-shared operands with a recorded (thread, call, input-hash, output-hash) history checked offline; same workload under ThreadSanitizer and Miri (data-race detector); {}; every case non-trivial; distinct = hash of operands", domains),
        "C13" => format!("one evaluation = one run of the public fill_queue + subdivide stages (f64; f32 on every fourth representable case) with the status observer installed: queue size and bounding boxes, link/flag/order of every event pair, exact pairwise relation of all final sub-segments (robust predicates on the stored doubles), chain coverage of every input edge on complete sweeps, and at every event the status structure walked in order (comparator strict on all pairs, lifetime by point, exact vertical order where separated); {}; non-trivial = full sweep; distinct = hash of (operands, operation, float)", domains),
        "C14" => format!("one evaluation = one run of fill_queue + subdivide after which every final sub-segment with a clear pair of side points has in_out / other_in_out / edge type / in_result / result transition / coincident-twin bookkeeping / prev_in_result compared with operand membership of the two side points (independent even-odd oracle); {}; non-trivial = full sweep; distinct = hash of (operands, operation, float)", domains),
        "C15" => format!("one evaluation = one operand pair x operation: Ord on all pairs (never Equal, antisymmetric, agreement with the specified x / y / right-before-left / angular / subject-first order evaluated with exact predicates) and all triples (<=120 events, else 10^5 sampled) of the events before and after subdivision; compare_segments on all pairs of left events with overlapping sweep lifetimes (never Equal, antisymmetric, agreement with the exact vertical order where separated, Equal on identity); {}; non-trivial = full sweep; distinct = hash of (operands, operation, float)", domains),
        "C16" => "one evaluation = one pair of segments handed to the public possible_intersection on fresh events, in both argument orders, compared with the exact relation of the pair (disjoint / shared endpoint / crossing / T / identical / overlap) following the outcome table in DESIGN.md: return code, which segments were divided and where (bit-exact endpoint for T contacts, one common point inside both boxes within tolerance of the exact rational point for crossings, overlap endpoints for overlaps), queue growth, partner links and left/right flags of every piece, typing of coincident pieces incl. the follow-up call; 75% integer pairs < 2^25 biased to shared endpoints / T / collinear / vertical, 12.5% float pairs (f64,f32) in general position, 12.5% ulp-slope constructions around the known one-ulp bump; non-trivial = the two segments are not disjoint; distinct = hash of (coordinates, operands, float)".to_string(),
        "C17" => "one evaluation = one checked transition of the exhaustive breadth-first exploration of every tree shape reachable over a small key universe (every insert/remove/get/next/prev/contains with every present and absent key from every shape, plus 7 terminal operations per shape: into_iter forward / backward / alternating / partially consumed, clear, extend) or one random history (60..1500 steps, key universes 3..1000, monotone and zig-zag runs) in lock-step with BTreeMap / BTreeSet with drop-counting keys and values, structural walks through the non-splaying hook, and reference-stability probes; run natively, with debug assertions, under AddressSanitizer, under Miri (Tree Borrows, leak check) and (thorough) valgrind; distinct = transition index / history parameters, all non-trivial".to_string(),
        "C18" => "one evaluation = one child process performing one scenario (build in ascending / descending / zig-zag / random order then query+clear, drop, consume forward / backward, partially consume then drop, extend, set drop; 160 shape scenarios = 4 insertion orders x 8 lookup patterns that fold the chain into spines with side branches x 5 teardowns; early-stopping intersection and difference on combs of thin rectangles, f64 and f32) on the 8 MiB main stack and on a 2 MiB thread stack, in the optimised build and (tree scenarios) in an unoptimised opt-level-0 build; the verdict is the child's exit status; distinct = (scenario, size, stack, build), all non-trivial".to_string(),
        _ => String::new(),
    };
    (r, common)
}

/// Re-run the monitor of a recorded violation. Ok(msg) = holds now, Err = reproduces.
pub fn replay(r: &Value) -> Result<String, (String, String)> {
    let kind = r["kind"].as_str().unwrap_or("");
    match kind {
        "boolean" => {
            let prop = r["property"].as_str().unwrap_or("");
            let case = case_from_json(&r["case"]);
            let f32_run = r["float"] == "f32";
            let pairing = parse_pairing(r["pairing"].as_str().unwrap_or("MM"));
            let op = r["operation"].as_str().map(Op::parse);
            let w = witnesses(&case, case.tol(f32_run));
            match prop {
                "C01" => c01_check(&case, op.unwrap(), f32_run, pairing, &w).map(|n| format!("{} witnesses agree", n)),
                "C02" => c02_check_through(&case, op.unwrap(), f32_run, &w, &mut StructStats::default(), pairing).map(|_| "structure valid".to_string()),
                "C04" => c04_check(&case, op.unwrap(), f32_run, &mut ProvStats::default()).map(|_| "provenance valid".to_string()),
                "C05" => c05_check_through(&case, f32_run, &w, pairing).map(|n| format!("{} witnesses consistent", n)),
                "C03" => c03_check(&case, op.unwrap(), f32_run).map(|_| "returns normally".to_string()),
                "C06" => c06_check(&case, f32_run, &mut Default::default()).map(|_| "laws hold".to_string()),
                "C07" => {
                    let mut rng = Rng::keyed(r["extra"]["seed"].as_u64().unwrap_or(1), "C07/rerepresent", r["extra"]["rerepresent_stream"].as_u64().unwrap_or(0));
                    c07_check(&case, &mut rng, f32_run, &mut Default::default()).map(|_| "representation independent".to_string())
                }
                "C08" => {
                    let mut rng = Rng::keyed(r["extra"]["seed"].as_u64().unwrap_or(1), "C08/transform", r["extra"]["stream"].as_u64().unwrap_or(0));
                    c08_check(&case, &mut rng, f32_run, &mut Default::default()).map(|_| "commutes with the transforms".to_string())
                }
                "C09" => c09_check(&case, f32_run, &mut Default::default()).map(|_| "far parts and shortcuts agree".to_string()),
                "C10" => c10_check(&case, &mut Default::default()).map(|_| "f32 agrees".to_string()),
                "C13" => c13_check(&case, op.unwrap(), f32_run, &mut Default::default()).map(|_| "planar subdivision".to_string()),
                "C14" => c14_check(&case, op.unwrap(), f32_run, &mut Default::default()).map(|_| "flags agree".to_string()),
                "C15" => {
                    let mut rng = Rng::keyed(r["extra"]["seed"].as_u64().unwrap_or(1), "C15/triples", r["extra"]["stream"].as_u64().unwrap_or(0));
                    c15_check(&case, op.unwrap(), f32_run, &mut Default::default(), &mut rng).map(|_| "orders consistent".to_string())
                }
                "C12" => {
                    let mut rng = Rng::keyed(1, "C12/replay", 0);
                    c12_check(&case, &mut rng, r["extra"]["threads"].as_u64().unwrap_or(3) as usize, 3, 4, &mut Default::default()).map(|_| "pure and deterministic".to_string())
                }
                _ => Err(("harness".into(), format!("no replay for property {}", prop))),
            }
        }
        "pair" => {
            let pc = crate::pimon::PairCase::from_json(&r["pair"]);
            match c16_check(&pc, r["exact_int"].as_bool().unwrap_or(false), &mut Default::default()) {
                crate::pimon::PiVerdict::Ok => Ok("pair handled as specified".into()),
                crate::pimon::PiVerdict::KnownN2(d) => Err(("n2".into(), d)),
                crate::pimon::PiVerdict::Violation(m) => Err(("pair".into(), m)),
            }
        }
        "splay-history" => {
            let mut st = Default::default();
            c17_history(r["seed"].as_u64().unwrap(), r["label"].as_str().unwrap(), r["index"].as_u64().unwrap(), r["steps"].as_u64().unwrap() as usize, r["universe"].as_i64().unwrap() as i32, &mut st)
                .map(|_| "history agrees with the reference".to_string())
                .map_err(|(m, log)| ("splay:history".to_string(), format!("{} ({})", m, log.join(" "))))
        }
        "splay-exhaustive" => crate::splaymon::exhaustive(r["k"].as_u64().unwrap() as u8, 0, 1, true).map(|x| format!("{} shapes, {} transitions agree", x.shapes, x.transitions)).map_err(|m| ("splay:exhaustive".to_string(), m)),
        "c18" => c18_replay(r),
        "orientation" => {
            let mut rng = Rng::keyed(r["seed"].as_u64().unwrap_or(1), "C10/orientation", r["shard"].as_u64().unwrap_or(0));
            c10_orientation(&mut rng, 400_000).map(|n| format!("{} orientation queries agree", n))
        }
        "c12-history" => {
            let mut rng = Rng::keyed(r["seed"].as_u64().unwrap_or(1), "C12/history", r["index"].as_u64().unwrap_or(0));
            c12_history(&mut rng, r["size"].as_u64().unwrap_or(1) as usize, 1100, &mut Default::default()).map(|_| "history deterministic".to_string())
        }
        "pair-history" => {
            let mut rng = Rng::keyed(r["seed"].as_u64().unwrap_or(1), "C16/history", r["index"].as_u64().unwrap_or(0));
            let r = if r["index"].as_u64().unwrap_or(0) % 2 == 0 { crate::pimon::check_two_call_history(&mut rng, &mut Default::default()) } else { crate::pimon::check_lifetime_history(&mut rng, &mut Default::default()) };
            r.map(|_| "history handled as specified".to_string()).map_err(|m| ("pair:history".to_string(), m))
        }
        "eventfan" => {
            let mut rng = Rng::keyed(r["seed"].as_u64().unwrap_or(1), "C15/segpair", r["index"].as_u64().unwrap_or(0));
            crate::sweepmon::check_event_fan(&mut rng, &mut Default::default()).map(|_| "fan ordered consistently".to_string()).map_err(|m| ("ordering:fan".to_string(), m))
        }
        "segpair" => {
            let mut rng = Rng::keyed(r["seed"].as_u64().unwrap_or(1), "C15/segpair", r["index"].as_u64().unwrap_or(0));
            crate::sweepmon::check_segment_pair(&mut rng, &mut Default::default()).map(|_| "pair ordered consistently".to_string()).map_err(|m| ("ordering:pair".to_string(), m))
        }
        "nextafter" => {
            let mut rng = Rng::keyed(r["seed"].as_u64().unwrap_or(1), "C10/nextafter", r["shard"].as_u64().unwrap_or(0));
            c10_nextafter(&mut rng, 200_000).map(|n| format!("{} values agree", n))
        }
        "triple" => c11_check(&triple_from_json(r), &mut Default::default()).map(|_| "chains agree".to_string()),
        "generated" => {
            let prop = r["property"].as_str().unwrap_or("");
            let mut ctx = Ctx::new(prop, Tier::parse(r["tier"].as_str().unwrap_or("quick")), r["seed"].as_u64().unwrap_or(1), 0, 1, r["variant"].as_str().unwrap_or("release"), "", 600.0);
            ctx.only_index = r["index"].as_u64();
            worker(&mut ctx);
            if ctx.violations.is_empty() {
                Ok("the generated case completes without a violation in this build variant".into())
            } else {
                let v = &ctx.violations[0];
                Err((v["symptom"].as_str().unwrap_or("").to_string(), v["detail"].as_str().unwrap_or("").to_string()))
            }
        }
        _ => Err(("harness".into(), format!("unknown replay kind {}", kind))),
    }
}

/// Diagnostic: run the whole-operation monitors on one operand pair given as JSON {"a":..,"b":..}.
pub fn probe(v: &Value) {
    let mut case = case_from_json(v);
    case.integer = is_integer_mp(&case.a, 3.0e7) && is_integer_mp(&case.b, 3.0e7);
    for f32_run in [false, true] {
        let w = witnesses(&case, case.tol(f32_run));
        for op in OPS {
            let c3 = c03_check(&case, op, f32_run);
            let c1 = c01_check(&case, op, f32_run, crate::iface::Pairing::MM, &w);
            let c2 = c02_check(&case, op, f32_run, &w, &mut StructStats::default());
            let c4 = c04_check(&case, op, f32_run, &mut ProvStats::default());
            let short = |r: Result<String, (String, String)>| match r {
                Ok(_) => "ok".to_string(),
                Err((s, d)) => format!("[{}] {}", s, d.chars().take(160).collect::<String>()),
            };
            println!("{} {:12} C03={} | C01={} | C02={} | C04={}", if f32_run { "f32" } else { "f64" }, op.name(), short(c3.map(|_| String::new())), short(c1.map(|_| String::new())), short(c2.map(|_| String::new())), short(c4.map(|_| String::new())));
        }
    }
    println!("operands_hash={} n2_hazard(f64)={} n2_hazard(f32)={}", operands_hash(&case.a, &case.b), crate::gen::n2_hazard(&case.a, &case.b, false), crate::gen::n2_hazard(&case.a, &case.b, true));
}

/// Listed known findings of one property (input entries carry their operands).
pub fn known_inputs(prop: &str) -> Vec<Value> {
    let text = std::fs::read_to_string(crate::util::known_findings_path()).unwrap_or_default();
    let v: Value = serde_json::from_str(&text).unwrap_or(Value::Null);
    v["findings"].as_array().map(|a| a.iter().filter(|f| f["property"] == prop && f["match"] == "input").cloned().collect()).unwrap_or_default()
}

/// Replays every listed input finding of the worker's property through `check` so that the KNOWN-FINDING
/// line reflects the current tree. A different symptom on a listed input is an ordinary violation.
pub fn run_known(ctx: &mut Ctx, check: &mut dyn FnMut(&crate::gen::Case, Op, bool) -> Result<(), (String, String)>) {
    if ctx.shard != 0 || ctx.only_index.is_some() || ctx.variant == "miri" || ctx.variant == "valgrind" {
        return;
    }
    let prop = ctx.prop.clone();
    for f in known_inputs(&prop) {
        let a = mp_from_json(&f["a"]);
        let b = mp_from_json(&f["b"]);
        let integer = is_integer_mp(&a, 3.0e7) && is_integer_mp(&b, 3.0e7);
        let case = crate::gen::Case { family: "K-known", desc: format!("known finding {}", f["id"].as_str().unwrap_or("")), a, b, exact: false, exact_f32: false, integer, f32_ok: false, self_crossing: false, faces: vec![] };
        if f["variant"].is_string() && f["variant"] != "any" && f["variant"] != ctx.variant.as_str() {
            continue;
        }
        let ops: Vec<Op> = match f["operation"].as_str() {
            Some("any") | None => OPS.to_vec(),
            Some(o) => vec![Op::parse(o)],
        };
        let floats: Vec<bool> = match f["float"].as_str() {
            Some("f32") => vec![true],
            Some("f64") => vec![false],
            _ => vec![false, true],
        };
        let mut reproduced = 0;
        let ops: Vec<(Op, bool)> = ops.iter().flat_map(|o| floats.iter().map(move |fl| (*o, *fl))).collect();
        for (op, f32_run) in &ops {
            let f32_run = *f32_run;
            ctx.begin("known", 0, f["id"].as_str().unwrap_or(""));
            ctx.cnt("known_finding_replays", 1);
            match check(&case, *op, f32_run) {
                Ok(()) => {}
                Err((sym, detail)) => {
                    if sym.starts_with(f["symptom"].as_str().unwrap_or("\u{0}")) {
                        reproduced += 1;
                    } else {
                        ctx.violation(&sym, &format!("listed input {} fails with a symptom that is not the listed one: {}", f["id"].as_str().unwrap_or(""), detail), boolean_replay(&prop, &case, Some(*op), f32_run, crate::iface::Pairing::MM, serde_json::json!({})));
                    }
                }
            }
            ctx.end();
        }
        let line = if reproduced > 0 {
            format!("KNOWN-FINDING: property={} {} {} [reproduces for {}/{} listed operations]", prop, f["id"].as_str().unwrap_or(""), f["what"].as_str().unwrap_or(""), reproduced, ops.len())
        } else {
            format!("KNOWN-FINDING: property={} {} {} [no longer reproduces on this tree]", prop, f["id"].as_str().unwrap_or(""), f["what"].as_str().unwrap_or(""))
        };
        ctx.violations.push(serde_json::json!({"property": prop, "symptom": format!("known:{}", f["id"].as_str().unwrap_or("")), "detail": line, "variant": ctx.variant, "replay": {}}));
    }
}

/// Operand pairs of all recorded input findings (deduplicated), each with the (operation, is_f32) combinations that are
/// listed for `prop` in build variant `variant` (None = every operation).
pub fn sentinel_inputs(prop: &str, variant: &str) -> Vec<(crate::gen::Case, Vec<(Option<Op>, Option<bool>)>)> {
    let text = std::fs::read_to_string(crate::util::known_findings_path()).unwrap_or_default();
    let v: Value = serde_json::from_str(&text).unwrap_or(Value::Null);
    let mut out: Vec<(String, crate::gen::Case, Vec<(Option<Op>, Option<bool>)>)> = Vec::new();
    for f in v["findings"].as_array().cloned().unwrap_or_default() {
        if f["match"] != "input" {
            continue;
        }
        let hash = f["operands_hash"].as_str().unwrap_or("").to_string();
        if !out.iter().any(|(h, _, _)| *h == hash) {
            let a = mp_from_json(&f["a"]);
            let b = mp_from_json(&f["b"]);
            let integer = is_integer_mp(&a, 3.0e7) && is_integer_mp(&b, 3.0e7);
            out.push((hash.clone(), crate::gen::Case { family: "K-known", desc: format!("finding {}", f["id"].as_str().unwrap_or("")), a, b, exact: false, exact_f32: false, integer, f32_ok: true, self_crossing: false, faces: vec![] }, vec![]));
        }
        if f["property"] == prop && (f["variant"] == "any" || f["variant"].is_null() || f["variant"] == variant) {
            let op = match f["operation"].as_str() {
                Some("any") | None => None,
                Some(o) => Some(Op::parse(o)),
            };
            let entry = out.iter_mut().find(|(h, _, _)| *h == hash).unwrap();
            let fl = match f["float"].as_str() {
                Some("f32") => Some(true),
                Some("f64") => Some(false),
                _ => None,
            };
            entry.2.push((op, fl));
        }
    }
    out.into_iter().map(|(_, c, l)| (c, l)).collect()
}

/// Branches of the library (hook H2 sites) that the workload of a property must have gone through at least once;
/// a run that did not reach one of them observed too little and is inconclusive, not "held".
pub fn required_sites(prop: &str) -> Vec<&'static str> {
    match prop {
        "C01" => vec!["FullSweep", "TrivialResult", "SubEarlyBreak", "PiPoint", "PiOverlapLeftCoincide", "PiOverlapLeftCoincideDivide", "PiOverlapRightCoincide", "PiOverlapStaggered", "PiOverlapContained", "CfSameOperandVerticalPrev", "CfOtherOperandVerticalPrev", "CeContourHole", "CeContourHoleSibling", "CeContourExteriorAbove"],
        "C02" => vec!["CeContourHole", "CeContourHoleSibling", "CeContourExteriorAbove", "CeContourNoPrev", "PiOverlapLeftCoincide", "CfSameOperandVerticalPrev", "CfPrevInResultInherited", "CfPrevInResultDirect"],
        "C03" => vec!["FullSweep", "TrivialResult", "SubEarlyBreak", "SubRemovalNeighbourCheck"],
        "C04" => vec!["PiDivideFirst", "PiDivideSecond", "DsCalls", "PiOverlapLeftCoincideDivide"],
        "C05" | "C07" | "C08" | "C10" | "C11" => vec!["FullSweep", "SubEarlyBreak", "PiOverlapLeftCoincide", "PiPoint"],
        "C06" => vec!["FullSweep", "TrivialResult", "PiOverlapLeftCoincide"],
        "C09" => vec!["FullSweep", "TrivialResult", "SubEarlyBreak"],
        "C13" => vec!["SubRemovalNeighbourCheck", "SubEarlyBreak", "SubRecomputeNext", "SubRecomputePrev", "PiOverlapLeftCoincide", "PiOverlapRightCoincide", "PiOverlapStaggered", "PiOverlapContained", "PiPointSharedEndpoint", "PiDivideFirst", "PiDivideSecond"],
        "C14" => vec!["CfNoPrev", "CfSameOperand", "CfSameOperandVerticalPrev", "CfOtherOperand", "CfOtherOperandVerticalPrev", "CfPrevInResultDirect", "CfPrevInResultInherited", "CfPrevInResultNone", "SubRecomputeNext", "SubRecomputePrev", "PiOverlapLeftCoincide"],
        "C15" => vec!["CsCollinearOtherOperand", "SubLeft", "SubRight"],
        "C16" => vec!["PiNone", "PiPointSharedEndpoint", "PiPoint", "PiDivideFirst", "PiDivideSecond", "PiOverlapSameOperand", "PiOverlapLeftCoincide", "PiOverlapLeftCoincideDivide", "PiOverlapRightCoincide", "PiOverlapStaggered", "PiOverlapContained", "DsCalls", "DsCorner1Bump", "DsCorner2Swap"],
        _ => vec![],
    }
}
