//! Property dispatch: which workers run in which build variants, evidence rules, replays.

use crate::ctx::*;
use crate::geom::*;
use crate::monitors::*;
use crate::props_a::*;
use serde_json::Value;

pub fn worker(ctx: &mut Ctx) {
    match ctx.prop.as_str() {
        "C01" => c01_worker(ctx),
        "C02" => c02_worker(ctx),
        "C04" => c04_worker(ctx),
        "C05" => c05_worker(ctx),
        p => panic!("no worker for {}", p),
    }
}

/// (variant, number of shards)
pub fn plan(prop: &str, _tier: Tier) -> Vec<(String, u64)> {
    let v = |s: &str, n: u64| (s.to_string(), n);
    match prop {
        "C01" | "C02" | "C04" | "C05" => vec![v("release", 16)],
        _ => vec![],
    }
}

pub fn floor(prop: &str, tier: Tier) -> u64 {
    let _ = (prop, tier);
    100
}

pub fn rule(prop: &str) -> (String, Vec<String>) {
    let domains = "operands are unions of faces of a tessellation (D1 rectilinear grid, D2 octilinear lattice, D4 jittered triangulation: truth known by construction) or polygons in general position (D3 float, D5 integer, incl. self-crossing rings read even-odd: truth from an independent crossing-number oracle)";
    let common = vec![
        "inputs stay inside the robust domains D1-D5 described in DESIGN.md; near-degenerate float contact outside them is only exercised through the listed known findings".to_string(),
        "exact predicates on doubles come from the third-party `robust` crate and i128 arithmetic".to_string(),
        "held on the executions listed here; nothing is proved".to_string(),
    ];
    let r = match prop {
        "C01" => format!("one evaluation = one Boolean operation through one of the four trait pairings, compared with op(inA,inB) at >=1 witness point per arrangement face; {}; non-trivial = both operands non-empty with overlapping bounding boxes (the full sweep runs); distinct = hash of (operand coordinates, operation, pairing)", domains),
        "C02" => format!("one evaluation = one Boolean operation whose returned polygon set is validated structurally (every boundary edge separates 'inside exactly its own polygon' from 'inside no polygon', holes inside their exterior and outside siblings, no boundary piece used twice, polygon-by-polygon reading == even-odd reading at every witness); shared-edge families weighted up plus constructed stacks/touching/nesting configurations; {}; non-trivial = full sweep runs; distinct = hash of (operands, operation)", domains),
        "C04" => format!("one evaluation = one Boolean operation whose result edges/vertices/rings are traced back to the inputs (edge on an input edge; vertex bit-identical to an input vertex or at the exact rational / tolerance intersection of two input edges; closed, >=3 distinct vertices, non-zero area, CCW when assembled); {}; non-trivial = full sweep runs; distinct = hash of (operands, operation)", domains),
        "C05" => format!("one evaluation = one operand pair on which intersection, union, A-B, B-A and xor are computed and compared with each other at every witness point and through the three area identities (exactly on exact families); {}; non-trivial = full sweep runs; distinct = hash of operands", domains),
        _ => String::new(),
    };
    (r, common)
}

/// Re-run the monitor of a recorded violation. Ok(msg) = holds now, Err = reproduces.
pub fn replay(r: &Value) -> Result<String, (String, String)> {
    let kind = r["kind"].as_str().unwrap_or("");
    match kind {
        "boolean" => {
            let prop = r["property"].as_str().unwrap_or("");
            let case = case_from_json(&r["case"]);
            let f32_run = r["float"] == "f32";
            let pairing = parse_pairing(r["pairing"].as_str().unwrap_or("MM"));
            let op = r["operation"].as_str().map(Op::parse);
            let w = witnesses(&case, case.tol(f32_run));
            match prop {
                "C01" => c01_check(&case, op.unwrap(), f32_run, pairing, &w).map(|n| format!("{} witnesses agree", n)),
                "C02" => c02_check(&case, op.unwrap(), f32_run, &w, &mut StructStats::default()).map(|_| "structure valid".to_string()),
                "C04" => c04_check(&case, op.unwrap(), f32_run, &mut ProvStats::default()).map(|_| "provenance valid".to_string()),
                "C05" => c05_check(&case, f32_run, &w).map(|n| format!("{} witnesses consistent", n)),
                _ => Err(("harness".into(), format!("no replay for property {}", prop))),
            }
        }
        "generated" => {
            let prop = r["property"].as_str().unwrap_or("");
            let mut ctx = Ctx::new(prop, Tier::parse(r["tier"].as_str().unwrap_or("quick")), r["seed"].as_u64().unwrap_or(1), 0, 1, r["variant"].as_str().unwrap_or("release"), "", 600.0);
            ctx.only_index = r["index"].as_u64();
            worker(&mut ctx);
            if ctx.violations.is_empty() {
                Ok("the generated case completes without a violation in this build variant".into())
            } else {
                let v = &ctx.violations[0];
                Err((v["symptom"].as_str().unwrap_or("").to_string(), v["detail"].as_str().unwrap_or("").to_string()))
            }
        }
        _ => Err(("harness".into(), format!("unknown replay kind {}", kind))),
    }
}
