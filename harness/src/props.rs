//! Property dispatch: which workers run in which build variants, evidence rules, replays.

use crate::ctx::*;
use crate::geom::*;
use crate::monitors::*;
use crate::props_a::*;
use crate::props_b::*;
use crate::util::Rng;
use serde_json::Value;

pub fn worker(ctx: &mut Ctx) {
    match ctx.prop.as_str() {
        "C01" => c01_worker(ctx),
        "C02" => c02_worker(ctx),
        "C04" => c04_worker(ctx),
        "C03" => c03_worker(ctx),
        "C05" => c05_worker(ctx),
        "C06" => c06_worker(ctx),
        "C07" => c07_worker(ctx),
        "C08" => c08_worker(ctx),
        "C09" => c09_worker(ctx),
        "C10" => c10_worker(ctx),
        "C11" => c11_worker(ctx),
        "C12" => c12_worker(ctx),
        p => panic!("no worker for {}", p),
    }
}

/// (variant, number of shards)
pub fn plan(prop: &str, _tier: Tier) -> Vec<(String, u64)> {
    let v = |s: &str, n: u64| (s.to_string(), n);
    match prop {
        "C01" | "C02" | "C04" | "C05" | "C06" | "C07" | "C08" | "C09" | "C10" | "C11" => vec![v("release", 16)],
        "C03" => match _tier {
            Tier::Quick => vec![v("release", 8), v("dbg", 8), v("asan", 8), v("miri", 8)],
            Tier::Thorough => vec![v("release", 16), v("dbg", 16), v("asan", 16), v("miri", 16), v("valgrind", 8)],
        },
        "C12" => match _tier {
            Tier::Quick => vec![v("release", 8), v("tsan", 8), v("miri", 4)],
            Tier::Thorough => vec![v("release", 16), v("tsan", 16), v("miri", 16)],
        },
        _ => vec![],
    }
}

pub fn floor(prop: &str, tier: Tier) -> u64 {
    let _ = (prop, tier);
    100
}

pub fn rule(prop: &str) -> (String, Vec<String>) {
    let domains = "operands are unions of faces of a tessellation (D1 rectilinear grid, D2 octilinear lattice, D4 jittered triangulation: truth known by construction) or polygons in general position (D3 float, D5 integer, incl. self-crossing rings read even-odd: truth from an independent crossing-number oracle)";
    let common = vec![
        "inputs stay inside the robust domains D1-D5 described in DESIGN.md; near-degenerate float contact outside them is only exercised through the listed known findings".to_string(),
        "exact predicates on doubles come from the third-party `robust` crate and i128 arithmetic".to_string(),
        "held on the executions listed here; nothing is proved".to_string(),
    ];
    let r = match prop {
        "C01" => format!("one evaluation = one Boolean operation through one of the four trait pairings, compared with op(inA,inB) at >=1 witness point per arrangement face; {}; non-trivial = both operands non-empty with overlapping bounding boxes (the full sweep runs); distinct = hash of (operand coordinates, operation, pairing)", domains),
        "C02" => format!("one evaluation = one Boolean operation whose returned polygon set is validated structurally (every boundary edge separates 'inside exactly its own polygon' from 'inside no polygon', holes inside their exterior and outside siblings, no boundary piece used twice, polygon-by-polygon reading == even-odd reading at every witness); shared-edge families weighted up plus constructed stacks/touching/nesting configurations; {}; non-trivial = full sweep runs; distinct = hash of (operands, operation)", domains),
        "C04" => format!("one evaluation = one Boolean operation whose result edges/vertices/rings are traced back to the inputs (edge on an input edge; vertex bit-identical to an input vertex or at the exact rational / tolerance intersection of two input edges; closed, >=3 distinct vertices, non-zero area, CCW when assembled); {}; non-trivial = full sweep runs; distinct = hash of (operands, operation)", domains),
        "C05" => format!("one evaluation = one operand pair on which intersection, union, A-B, B-A and xor are computed and compared with each other at every witness point and through the three area identities (exactly on exact families); {}; non-trivial = full sweep runs; distinct = hash of operands", domains),
        "C03" => format!("one evaluation = one Boolean call (f64 or f32) with step budgets armed (sweep events <= 4n^2+8n+64 for n input edges, bubble passes and contour steps bounded by the same), run in release, debug-assertion, AddressSanitizer, Miri (Tree Borrows) and (thorough) valgrind builds; panic, budget excess, signal or sanitizer report = violation; {}; plus degenerate operands (empty, empty rings, repeated vertices) and 10^5..10^6-edge combs/checkerboards; every case counts as non-trivial (any input may fail to return); distinct = hash of (operands, operation, float type)", domains),
        "C06" => format!("one evaluation = one operand pair on which commutativity (ring sets on exact families, regions otherwise), A op A, empty operands in two encodings, and disjoint / touching bounding boxes are checked; {}; non-trivial = full sweep runs on the base pair; distinct = hash of operands", domains),
        "C07" => format!("one evaluation = one operand pair re-represented three times (ring start, direction, order of parts and holes, repeated vertices) x 4 operations, plus the three other trait pairings and the named methods; regions compared everywhere, canonical ring sets on exact families, pairings bit for bit; {}; non-trivial = full sweep runs; distinct = hash of operands", domains),
        "C08" => format!("one evaluation = one operand pair x (two random power-of-two scalings compared bit for bit, one integer translation on exact families compared as canonical polygon sets, the 7 non-trivial axis symmetries compared as regions at transformed witnesses) x 4 operations; {}; non-trivial = full sweep runs; distinct = hash of operands", domains),
        "C09" => format!("one evaluation = one operand pair x 8 placements of a far triangle (4 sides x subject/clipping) x 4 operations compared as canonical ring sets with the part's own contribution, plus shortcut-vs-sweep on the same geometry; hook counters show how often the trivial path and the early break were taken; {}; non-trivial = full sweep runs on the base pair; distinct = hash of operands", domains),
        "C10" => format!("one evaluation = one f32-representable operand pair on which the C01/C02/C04/C05 monitors run with MultiPolygon<f32>, and on exact small-integer inputs the f32 result is compared coordinate for coordinate with the f64 result; {}; non-trivial = full sweep runs; distinct = hash of operands", domains),
        "C11" => "one evaluation = one triple (A,B,C) of regions on one exact tessellation (D1 grid / D2 lattice) x 16 operation pairs x 4 chain shapes ((A op B) op' C, C op' (A op B), (A op B) op' B, A op' (A op B)) compared with the pointwise combination at every face centroid; intermediates validated structurally; non-trivial = full sweep runs on (A,B); distinct = hash of the three operands".to_string(),
        "C12" => format!("one evaluation = one operand pair: bitwise operand snapshots around every call, 4 operations repeated after unrelated operations and heap perturbation, then 3 or 16 threads calling concurrently on Arc-shared operands with a recorded (thread, call, input-hash, output-hash) history checked offline; same workload under ThreadSanitizer and Miri (data-race detector); {}; every case non-trivial; distinct = hash of operands", domains),
        _ => String::new(),
    };
    (r, common)
}

/// Re-run the monitor of a recorded violation. Ok(msg) = holds now, Err = reproduces.
pub fn replay(r: &Value) -> Result<String, (String, String)> {
    let kind = r["kind"].as_str().unwrap_or("");
    match kind {
        "boolean" => {
            let prop = r["property"].as_str().unwrap_or("");
            let case = case_from_json(&r["case"]);
            let f32_run = r["float"] == "f32";
            let pairing = parse_pairing(r["pairing"].as_str().unwrap_or("MM"));
            let op = r["operation"].as_str().map(Op::parse);
            let w = witnesses(&case, case.tol(f32_run));
            match prop {
                "C01" => c01_check(&case, op.unwrap(), f32_run, pairing, &w).map(|n| format!("{} witnesses agree", n)),
                "C02" => c02_check(&case, op.unwrap(), f32_run, &w, &mut StructStats::default()).map(|_| "structure valid".to_string()),
                "C04" => c04_check(&case, op.unwrap(), f32_run, &mut ProvStats::default()).map(|_| "provenance valid".to_string()),
                "C05" => c05_check(&case, f32_run, &w).map(|n| format!("{} witnesses consistent", n)),
                "C03" => c03_check(&case, op.unwrap(), f32_run).map(|_| "returns normally".to_string()),
                "C06" => c06_check(&case, f32_run, &mut Default::default()).map(|_| "laws hold".to_string()),
                "C07" => {
                    let mut rng = Rng::keyed(r["extra"]["seed"].as_u64().unwrap_or(1), "C07/rerepresent", r["extra"]["rerepresent_stream"].as_u64().unwrap_or(0));
                    c07_check(&case, &mut rng, f32_run, &mut Default::default()).map(|_| "representation independent".to_string())
                }
                "C08" => {
                    let mut rng = Rng::keyed(r["extra"]["seed"].as_u64().unwrap_or(1), "C08/transform", r["extra"]["stream"].as_u64().unwrap_or(0));
                    c08_check(&case, &mut rng, f32_run, &mut Default::default()).map(|_| "commutes with the transforms".to_string())
                }
                "C09" => c09_check(&case, f32_run, &mut Default::default()).map(|_| "far parts and shortcuts agree".to_string()),
                "C10" => c10_check(&case, &mut Default::default()).map(|_| "f32 agrees".to_string()),
                "C12" => {
                    let mut rng = Rng::keyed(1, "C12/replay", 0);
                    c12_check(&case, &mut rng, r["extra"]["threads"].as_u64().unwrap_or(3) as usize, 3, &mut Default::default()).map(|_| "pure and deterministic".to_string())
                }
                _ => Err(("harness".into(), format!("no replay for property {}", prop))),
            }
        }
        "triple" => c11_check(&triple_from_json(r), &mut Default::default()).map(|_| "chains agree".to_string()),
        "generated" => {
            let prop = r["property"].as_str().unwrap_or("");
            let mut ctx = Ctx::new(prop, Tier::parse(r["tier"].as_str().unwrap_or("quick")), r["seed"].as_u64().unwrap_or(1), 0, 1, r["variant"].as_str().unwrap_or("release"), "", 600.0);
            ctx.only_index = r["index"].as_u64();
            worker(&mut ctx);
            if ctx.violations.is_empty() {
                Ok("the generated case completes without a violation in this build variant".into())
            } else {
                let v = &ctx.violations[0];
                Err((v["symptom"].as_str().unwrap_or("").to_string(), v["detail"].as_str().unwrap_or("").to_string()))
            }
        }
        _ => Err(("harness".into(), format!("unknown replay kind {}", kind))),
    }
}

/// Diagnostic: run the whole-operation monitors on one operand pair given as JSON {"a":..,"b":..}.
pub fn probe(v: &Value) {
    let mut case = case_from_json(v);
    case.integer = is_integer_mp(&case.a, 3.0e7) && is_integer_mp(&case.b, 3.0e7);
    for f32_run in [false, true] {
        let w = witnesses(&case, case.tol(f32_run));
        for op in OPS {
            let c3 = c03_check(&case, op, f32_run);
            let c1 = c01_check(&case, op, f32_run, crate::iface::Pairing::MM, &w);
            let c2 = c02_check(&case, op, f32_run, &w, &mut StructStats::default());
            let c4 = c04_check(&case, op, f32_run, &mut ProvStats::default());
            let short = |r: Result<String, (String, String)>| match r {
                Ok(_) => "ok".to_string(),
                Err((s, d)) => format!("[{}] {}", s, d.chars().take(160).collect::<String>()),
            };
            println!("{} {:12} C03={} | C01={} | C02={} | C04={}", if f32_run { "f32" } else { "f64" }, op.name(), short(c3.map(|_| String::new())), short(c1.map(|_| String::new())), short(c2.map(|_| String::new())), short(c4.map(|_| String::new())));
        }
    }
    println!("operands_hash={}", operands_hash(&case.a, &case.b));
}
