//! Independent geometry oracles. Nothing in here calls into the library under test.
//! Exact predicates on doubles use the third-party `robust` crate (adaptive exact arithmetic)
//! and, for integer inputs, i128 arithmetic; the two are cross-checked by the self tests.

use crate::util::Hasher128;
use serde_json::{json, Value};

pub type Pt = (f64, f64);
pub type Ring = Vec<Pt>; // as handed to / returned by the library (normally closed: first == last)
pub type Poly = Vec<Ring>; // [exterior, holes...]
pub type MP = Vec<Poly>;
pub type Seg = (Pt, Pt);

#[derive(Clone, Copy, Debug, PartialEq, Eq, Hash, PartialOrd, Ord)]
pub enum Op {
    Intersection,
    Union,
    Difference,
    Xor,
}
pub const OPS: [Op; 4] = [Op::Intersection, Op::Union, Op::Difference, Op::Xor];

impl Op {
    pub fn apply(self, p: bool, q: bool) -> bool {
        match self {
            Op::Intersection => p && q,
            Op::Union => p || q,
            Op::Difference => p && !q,
            Op::Xor => p ^ q,
        }
    }
    pub fn name(self) -> &'static str {
        match self {
            Op::Intersection => "intersection",
            Op::Union => "union",
            Op::Difference => "difference",
            Op::Xor => "xor",
        }
    }
    pub fn parse(s: &str) -> Op {
        match s {
            "intersection" => Op::Intersection,
            "union" => Op::Union,
            "difference" => Op::Difference,
            "xor" => Op::Xor,
            _ => panic!("bad op {}", s),
        }
    }
    pub fn commutative(self) -> bool {
        self != Op::Difference
    }
}

// ------------------------------------------------------------------------------------------
// JSON

pub fn mp_to_json(mp: &MP) -> Value {
    Value::Array(
        mp.iter()
            .map(|p| Value::Array(p.iter().map(|r| Value::Array(r.iter().map(|&q| crate::util::jpt(q)).collect())).collect()))
            .collect(),
    )
}

pub fn mp_from_json(v: &Value) -> MP {
    v.as_array()
        .unwrap()
        .iter()
        .map(|p| {
            p.as_array()
                .unwrap()
                .iter()
                .map(|r| {
                    r.as_array()
                        .unwrap()
                        .iter()
                        .map(|q| {
                            let q = q.as_array().unwrap();
                            (crate::util::vf(&q[0]), crate::util::vf(&q[1]))
                        })
                        .collect()
                })
                .collect()
        })
        .collect()
}

pub fn hash_mp(h: &mut Hasher128, mp: &MP) {
    h.u64(mp.len() as u64);
    for p in mp {
        h.u64(p.len() as u64);
        for r in p {
            h.u64(r.len() as u64);
            for q in r {
                h.f64(q.0);
                h.f64(q.1);
            }
        }
    }
}

pub fn operands_hash(a: &MP, b: &MP) -> String {
    let mut h = Hasher128::default();
    hash_mp(&mut h, a);
    hash_mp(&mut h, b);
    h.hex()
}

pub fn mp_brief(mp: &MP) -> Value {
    json!({"polygons": mp.len(), "rings": mp.iter().map(|p| p.len()).sum::<usize>(), "vertices": mp.iter().flatten().map(|r| r.len()).sum::<usize>()})
}

// ------------------------------------------------------------------------------------------
// basic measures

pub fn rings(mp: &MP) -> impl Iterator<Item = &Ring> {
    mp.iter().flat_map(|p| p.iter())
}

pub fn edge_count(mp: &MP) -> usize {
    segs_of(mp).len()
}

/// non-degenerate edges of all rings (an unclosed ring gets its implicit closing edge)
pub fn segs_of(mp: &MP) -> Vec<Seg> {
    let mut out = Vec::new();
    for r in rings(mp) {
        ring_segs(r, &mut out);
    }
    out
}

pub fn ring_segs(r: &Ring, out: &mut Vec<Seg>) {
    let n = r.len();
    if n < 2 {
        return;
    }
    for i in 0..n - 1 {
        if r[i] != r[i + 1] {
            out.push((r[i], r[i + 1]));
        }
    }
    if r[0] != r[n - 1] {
        out.push((r[n - 1], r[0]));
    }
}

pub fn max_abs_coord(mps: &[&MP]) -> f64 {
    let mut m: f64 = 0.0;
    for mp in mps {
        for r in rings(mp) {
            for q in r {
                m = m.max(q.0.abs()).max(q.1.abs());
            }
        }
    }
    m
}

pub fn bbox(mp: &MP) -> Option<(Pt, Pt)> {
    let mut it = rings(mp).flatten();
    let f = *it.next()?;
    let (mut lo, mut hi) = (f, f);
    for q in rings(mp).flatten() {
        lo = (lo.0.min(q.0), lo.1.min(q.1));
        hi = (hi.0.max(q.0), hi.1.max(q.1));
    }
    Some((lo, hi))
}

/// twice the signed area (shoelace), implicit closure
pub fn ring_area2(r: &Ring) -> f64 {
    let n = r.len();
    if n < 3 {
        return 0.0;
    }
    // integer coordinates: exact in i128 (products of 2^27-sized coordinates do not fit a double; a long thin ring
    // would otherwise get a wrong or zero area)
    if r.iter().all(|p| p.0.fract() == 0.0 && p.1.fract() == 0.0 && p.0.abs() < 4.0e18 && p.1.abs() < 4.0e18) {
        let o = (r[0].0 as i128, r[0].1 as i128);
        let mut a: i128 = 0;
        for i in 0..n {
            let (p, q) = (r[i], r[(i + 1) % n]);
            let (px, py, qx, qy) = (p.0 as i128 - o.0, p.1 as i128 - o.1, q.0 as i128 - o.0, q.1 as i128 - o.1);
            a += px * qy - qx * py;
        }
        return a as f64;
    }
    // relative to the first vertex: the sign (and for exact families the value) does not degrade when a small ring
    // lies far from the origin
    let o = r[0];
    let mut a = 0.0;
    for i in 0..n {
        let (p, q) = ((r[i].0 - o.0, r[i].1 - o.1), (r[(i + 1) % n].0 - o.0, r[(i + 1) % n].1 - o.1));
        a += p.0 * q.1 - q.0 * p.1;
    }
    a
}

/// twice the area of the region read structurally (|exterior| - sum |holes|)
pub fn mp_area2(mp: &MP) -> f64 {
    let mut a = 0.0;
    for p in mp {
        for (i, r) in p.iter().enumerate() {
            if i == 0 {
                a += ring_area2(r).abs();
            } else {
                a -= ring_area2(r).abs();
            }
        }
    }
    a
}

// ------------------------------------------------------------------------------------------
// point location (crossing number). The query point must not lie on the ring.

pub fn in_ring(r: &Ring, x: f64, y: f64) -> bool {
    let n = r.len();
    if n < 2 {
        return false;
    }
    let mut inside = false;
    for i in 0..n {
        let a = r[i];
        let b = r[(i + 1) % n];
        if (a.1 > y) != (b.1 > y) {
            let t = (y - a.1) / (b.1 - a.1);
            let xi = a.0 + t * (b.0 - a.0);
            if xi > x {
                inside = !inside;
            }
        }
    }
    inside
}

pub fn in_poly(p: &Poly, x: f64, y: f64) -> bool {
    !p.is_empty() && in_ring(&p[0], x, y) && !p[1..].iter().any(|h| in_ring(h, x, y))
}

/// structural reading: inside some polygon's exterior and outside all of that polygon's holes
pub fn in_mp(mp: &MP, x: f64, y: f64) -> bool {
    mp.iter().any(|p| in_poly(p, x, y))
}

pub fn cover_count(mp: &MP, x: f64, y: f64) -> usize {
    mp.iter().filter(|p| in_poly(p, x, y)).count()
}

/// even-odd reading over all rings
pub fn in_evenodd(mp: &MP, x: f64, y: f64) -> bool {
    let mut c = false;
    for r in rings(mp) {
        if in_ring(r, x, y) {
            c = !c;
        }
    }
    c
}

pub fn dist_pt_seg(p: Pt, s: Seg) -> f64 {
    let (a, b) = s;
    let (dx, dy) = (b.0 - a.0, b.1 - a.1);
    let l2 = dx * dx + dy * dy;
    let t = if l2 == 0.0 { 0.0 } else { (((p.0 - a.0) * dx + (p.1 - a.1) * dy) / l2).clamp(0.0, 1.0) };
    let (qx, qy) = (a.0 + t * dx, a.1 + t * dy);
    ((p.0 - qx).powi(2) + (p.1 - qy).powi(2)).sqrt()
}

pub fn min_dist_to_segs(p: Pt, segs: &[Seg]) -> f64 {
    let mut m = f64::INFINITY;
    for s in segs {
        m = m.min(dist_pt_seg(p, *s));
    }
    m
}

// ------------------------------------------------------------------------------------------
// exact predicates on doubles

/// sign of the orientation of (a,b,c): +1 counter-clockwise, -1 clockwise, 0 collinear. Exact.
pub fn orient(a: Pt, b: Pt, c: Pt) -> i32 {
    let v = robust::orient2d(
        robust::Coord { x: a.0, y: a.1 },
        robust::Coord { x: b.0, y: b.1 },
        robust::Coord { x: c.0, y: c.1 },
    );
    if v > 0.0 {
        1
    } else if v < 0.0 {
        -1
    } else {
        0
    }
}

/// exact orientation for integer-valued points via i128 (cross-check of `orient`)
pub fn orient_int(a: Pt, b: Pt, c: Pt) -> i32 {
    let f = |v: f64| v as i128;
    let v = (f(b.0) - f(a.0)) * (f(c.1) - f(a.1)) - (f(b.1) - f(a.1)) * (f(c.0) - f(a.0));
    v.signum() as i32
}

pub fn lex_lt(a: Pt, b: Pt) -> bool {
    a.0 < b.0 || (a.0 == b.0 && a.1 < b.1)
}
pub fn lex_le(a: Pt, b: Pt) -> bool {
    a == b || lex_lt(a, b)
}
pub fn lex_min(a: Pt, b: Pt) -> Pt {
    if lex_lt(b, a) {
        b
    } else {
        a
    }
}
pub fn lex_max(a: Pt, b: Pt) -> Pt {
    if lex_lt(a, b) {
        b
    } else {
        a
    }
}
/// segment with its lexicographically smaller endpoint first
pub fn norm_seg(s: Seg) -> Seg {
    if lex_lt(s.1, s.0) {
        (s.1, s.0)
    } else {
        s
    }
}

fn in_box(a: Pt, b: Pt, p: Pt) -> bool {
    p.0 >= a.0.min(b.0) && p.0 <= a.0.max(b.0) && p.1 >= a.1.min(b.1) && p.1 <= a.1.max(b.1)
}

/// p lies on the closed segment ab (exact)
pub fn on_seg(s: Seg, p: Pt) -> bool {
    orient(s.0, s.1, p) == 0 && in_box(s.0, s.1, p)
}

/// p lies in the relative interior of ab (exact)
pub fn in_seg_interior(s: Seg, p: Pt) -> bool {
    on_seg(s, p) && p != s.0 && p != s.1
}

#[derive(Debug, Clone, Copy, PartialEq, Eq, Hash, PartialOrd, Ord)]
pub enum Rel {
    Disjoint,
    /// proper crossing in the interiors of both
    Cross,
    /// the only common point is an endpoint of both
    SharedVertex,
    /// the only common point is an endpoint of one in the interior of the other
    Tee,
    /// same two endpoints
    Identical,
    /// collinear with a common piece of non-zero length, not identical
    Overlap,
}

/// exact relation of two non-degenerate segments given as doubles
pub fn seg_rel(s: Seg, t: Seg) -> Rel {
    let (a, b) = s;
    let (c, d) = t;
    let (o1, o2, o3, o4) = (orient(a, b, c), orient(a, b, d), orient(c, d, a), orient(c, d, b));
    if o1 == 0 && o2 == 0 {
        // collinear: compare along the dominant axis, lexicographic order is monotone on a line
        let (s0, s1) = (lex_min(a, b), lex_max(a, b));
        let (t0, t1) = (lex_min(c, d), lex_max(c, d));
        let lo = lex_max(s0, t0);
        let hi = lex_min(s1, t1);
        if lex_lt(hi, lo) {
            return Rel::Disjoint;
        }
        if lo == hi {
            return Rel::SharedVertex;
        }
        if s0 == t0 && s1 == t1 {
            return Rel::Identical;
        }
        return Rel::Overlap;
    }
    if o1 * o2 < 0 && o3 * o4 < 0 {
        return Rel::Cross;
    }
    let mut touch = false;
    let mut shared = false;
    if o1 == 0 && in_box(a, b, c) {
        touch = true;
        shared |= c == a || c == b;
    }
    if o2 == 0 && in_box(a, b, d) {
        touch = true;
        shared |= d == a || d == b;
    }
    if o3 == 0 && in_box(c, d, a) {
        touch = true;
        shared |= a == c || a == d;
    }
    if o4 == 0 && in_box(c, d, b) {
        touch = true;
        shared |= b == c || b == d;
    }
    if !touch {
        Rel::Disjoint
    } else if shared {
        Rel::SharedVertex
    } else {
        Rel::Tee
    }
}

/// Approximate intersection point of two lines through non-parallel segments, own formula
/// (intersection of the two carriers, evaluated from the segment with the larger denominators).
pub fn line_x(s: Seg, t: Seg) -> Option<Pt> {
    let (a, b) = s;
    let (c, d) = t;
    let (rx, ry) = (b.0 - a.0, b.1 - a.1);
    let (sx, sy) = (d.0 - c.0, d.1 - c.1);
    let den = rx * sy - ry * sx;
    if den == 0.0 {
        return None;
    }
    let u = ((c.0 - a.0) * sy - (c.1 - a.1) * sx) / den;
    Some((a.0 + u * rx, a.1 + u * ry))
}

/// parameter of the projection of p on s (0 at s.0, 1 at s.1)
pub fn param_on(s: Seg, p: Pt) -> f64 {
    let (dx, dy) = (s.1 .0 - s.0 .0, s.1 .1 - s.0 .1);
    ((p.0 - s.0 .0) * dx + (p.1 - s.0 .1) * dy) / (dx * dx + dy * dy)
}

/// Exact rational crossing point of two integer segments whose carriers are not parallel:
/// (xnum, ynum, den) with den > 0.
pub fn cross_point_int(s: Seg, t: Seg) -> Option<(i128, i128, i128)> {
    let f = |v: f64| v as i128;
    let (ax, ay, bx, by) = (f(s.0 .0), f(s.0 .1), f(s.1 .0), f(s.1 .1));
    let (cx, cy, dx, dy) = (f(t.0 .0), f(t.0 .1), f(t.1 .0), f(t.1 .1));
    let den = (bx - ax) * (dy - cy) - (by - ay) * (dx - cx);
    if den == 0 {
        return None;
    }
    let tn = (cx - ax) * (dy - cy) - (cy - ay) * (dx - cx);
    let (mut xn, mut yn, mut dn) = (ax * den + tn * (bx - ax), ay * den + tn * (by - ay), den);
    if dn < 0 {
        xn = -xn;
        yn = -yn;
        dn = -dn;
    }
    Some((xn, yn, dn))
}

pub fn is_integer_mp(mp: &MP, bound: f64) -> bool {
    rings(mp).flatten().all(|q| q.0.fract() == 0.0 && q.1.fract() == 0.0 && q.0.abs() <= bound && q.1.abs() <= bound)
}

// ------------------------------------------------------------------------------------------
// ring canonicalisation (for ring-set equality)

/// drop the closing vertex and consecutive repeats
pub fn open_ring(r: &Ring) -> Vec<Pt> {
    let mut v: Vec<Pt> = Vec::with_capacity(r.len());
    for &p in r {
        if v.last() != Some(&p) {
            v.push(p);
        }
    }
    while v.len() > 1 && v.first() == v.last() {
        v.pop();
    }
    v
}

/// canonical form of a ring up to start vertex and direction: counter-clockwise, starting at the
/// lexicographically least vertex (for self-touching rings: least (vertex, successor) pair)
pub fn canon_ring(r: &Ring) -> Vec<Pt> {
    let mut v = open_ring(r);
    if v.len() < 2 {
        return v;
    }
    if ring_area2(&v) < 0.0 {
        v.reverse();
    }
    let n = v.len();
    let mut best = 0;
    for i in 1..n {
        let (a, b) = ((v[i], v[(i + 1) % n]), (v[best], v[(best + 1) % n]));
        if lex_lt(a.0, b.0) || (a.0 == b.0 && lex_lt(a.1, b.1)) {
            best = i;
        }
    }
    v.rotate_left(best);
    v
}

fn cmp_pts(a: &Vec<Pt>, b: &Vec<Pt>) -> std::cmp::Ordering {
    a.partial_cmp(b).unwrap_or(std::cmp::Ordering::Equal)
}

/// canonical polygon: (canonical exterior, sorted canonical holes)
pub fn canon_poly(p: &Poly) -> Vec<Vec<Pt>> {
    if p.is_empty() {
        return vec![];
    }
    let mut holes: Vec<Vec<Pt>> = p[1..].iter().map(canon_ring).filter(|r| !r.is_empty()).collect();
    holes.sort_by(cmp_pts);
    let mut out = vec![canon_ring(&p[0])];
    out.extend(holes);
    out
}

/// canonical multipolygon keeping the exterior/hole structure; polygons without vertices dropped
pub fn canon_mp(mp: &MP) -> Vec<Vec<Vec<Pt>>> {
    let mut ps: Vec<Vec<Vec<Pt>>> = mp.iter().map(canon_poly).filter(|p| !p.is_empty() && !p[0].is_empty()).collect();
    ps.sort_by(|a, b| {
        for (x, y) in a.iter().zip(b.iter()) {
            let c = cmp_pts(x, y);
            if c != std::cmp::Ordering::Equal {
                return c;
            }
        }
        a.len().cmp(&b.len())
    });
    ps
}

/// canonical multiset of rings, ignoring which polygon carries which hole
pub fn canon_ringset(mp: &MP) -> Vec<Vec<Pt>> {
    let mut rs: Vec<Vec<Pt>> = rings(mp).map(canon_ring).filter(|r| !r.is_empty()).collect();
    rs.sort_by(cmp_pts);
    rs
}

pub fn map_mp(mp: &MP, f: &dyn Fn(Pt) -> Pt) -> MP {
    mp.iter().map(|p| p.iter().map(|r| r.iter().map(|&q| f(q)).collect()).collect()).collect()
}

// ------------------------------------------------------------------------------------------
// witness points: at least one per face of the arrangement of the given segments

#[derive(Clone, Copy, Debug)]
pub struct Wit {
    pub x: f64,
    pub y: f64,
    pub in_a: bool,
    pub in_b: bool,
}

pub struct WitnessStats {
    pub pieces: usize,
    pub accepted: usize,
    pub skipped_unclear: usize,
}

/// For every maximal piece of every segment between two consecutive points where other segments
/// meet it, two points just left and right of the piece's interior that are farther than `clear`
/// from every segment. Every bounded face of the arrangement has such a piece on its boundary.
pub fn arrangement_side_points(segs: &[Seg], clear: f64, stats: &mut WitnessStats) -> Vec<Pt> {
    let mut out = Vec::new();
    for (i, &s) in segs.iter().enumerate() {
        let mut ts: Vec<f64> = vec![0.0, 1.0];
        for (j, &t) in segs.iter().enumerate() {
            if i == j {
                continue;
            }
            // bounding boxes disjoint by more than clear: irrelevant
            if s.0 .0.min(s.1 .0) > t.0 .0.max(t.1 .0) + clear
                || t.0 .0.min(t.1 .0) > s.0 .0.max(s.1 .0) + clear
                || s.0 .1.min(s.1 .1) > t.0 .1.max(t.1 .1) + clear
                || t.0 .1.min(t.1 .1) > s.0 .1.max(s.1 .1) + clear
            {
                continue;
            }
            if let Some(p) = line_x(s, t) {
                let u = param_on(s, p);
                if u > 0.0 && u < 1.0 && dist_pt_seg(p, t) <= clear {
                    ts.push(u);
                }
            }
            for e in [t.0, t.1] {
                if dist_pt_seg(e, s) <= clear {
                    let u = param_on(s, e);
                    if u > 0.0 && u < 1.0 {
                        ts.push(u);
                    }
                }
            }
        }
        ts.sort_by(|a, b| a.partial_cmp(b).unwrap());
        let (dx, dy) = (s.1 .0 - s.0 .0, s.1 .1 - s.0 .1);
        let len = (dx * dx + dy * dy).sqrt();
        if len == 0.0 {
            continue;
        }
        let (nx, ny) = (-dy / len, dx / len);
        for w in ts.windows(2) {
            let plen = (w[1] - w[0]) * len;
            if plen <= 4.0 * clear {
                continue;
            }
            stats.pieces += 1;
            let mut found = [false, false];
            'search: for frac in [0.5, 0.3125, 0.6875, 0.15, 0.85] {
                let u = w[0] + (w[1] - w[0]) * frac;
                let (mx, my) = (s.0 .0 + u * dx, s.0 .1 + u * dy);
                let mut delta = plen * 0.25;
                while delta > 2.0 * clear {
                    for (k, sign) in [(0usize, 1.0), (1usize, -1.0)] {
                        if found[k] {
                            continue;
                        }
                        let p = (mx + sign * delta * nx, my + sign * delta * ny);
                        if min_dist_to_segs(p, segs) > clear {
                            found[k] = true;
                            out.push(p);
                        }
                    }
                    if found[0] && found[1] {
                        break 'search;
                    }
                    delta *= 0.25;
                }
            }
            for f in found {
                if f {
                    stats.accepted += 1;
                } else {
                    stats.skipped_unclear += 1;
                }
            }
        }
    }
    out
}

/// distance below which a witness point counts as "within rounding distance of an edge"
pub fn clearance(tol: f64, scale: f64) -> f64 {
    (10.0 * tol).max(1e-7 * scale.max(1e-300))
}

#[cfg(test)]
mod selftest {
    use super::*;
    use crate::util::Rng;

    #[test]
    fn orient_agrees_with_integer_arithmetic() {
        let mut rng = Rng(42);
        for _ in 0..200_000 {
            let r = [3i64, 50, 1 << 20, (1 << 25) - 1][rng.below(4) as usize];
            let p = |rng: &mut Rng| (rng.range(-r, r) as f64, rng.range(-r, r) as f64);
            let (a, b) = (p(&mut rng), p(&mut rng));
            // third point often collinear
            let c = if rng.below(2) == 0 { (a.0 + 3.0 * (b.0 - a.0), a.1 + 3.0 * (b.1 - a.1)) } else { p(&mut rng) };
            assert_eq!(orient(a, b, c), orient_int(a, b, c), "{:?} {:?} {:?}", a, b, c);
        }
    }

    #[test]
    fn segment_relations() {
        let s = ((0.0, 0.0), (4.0, 4.0));
        assert_eq!(seg_rel(s, ((0.0, 4.0), (4.0, 0.0))), Rel::Cross);
        assert_eq!(seg_rel(s, ((2.0, 2.0), (5.0, 0.0))), Rel::Tee);
        assert_eq!(seg_rel(s, ((4.0, 4.0), (5.0, 0.0))), Rel::SharedVertex);
        assert_eq!(seg_rel(s, ((4.0, 4.0), (6.0, 6.0))), Rel::SharedVertex);
        assert_eq!(seg_rel(s, ((2.0, 2.0), (6.0, 6.0))), Rel::Overlap);
        assert_eq!(seg_rel(s, ((4.0, 4.0), (0.0, 0.0))), Rel::Identical);
        assert_eq!(seg_rel(s, ((5.0, 5.0), (6.0, 6.0))), Rel::Disjoint);
        assert_eq!(seg_rel(s, ((0.0, 1.0), (4.0, 5.0))), Rel::Disjoint);
        assert_eq!(seg_rel(((0.0, 0.0), (0.0, 4.0)), ((0.0, 1.0), (0.0, 2.0))), Rel::Overlap);
    }

    #[test]
    fn point_location_and_area() {
        let sq: Ring = vec![(0.0, 0.0), (4.0, 0.0), (4.0, 4.0), (0.0, 4.0), (0.0, 0.0)];
        let mut hole: Ring = vec![(1.0, 1.0), (3.0, 1.0), (3.0, 3.0), (1.0, 3.0), (1.0, 1.0)];
        hole.reverse();
        let mp: MP = vec![vec![sq.clone(), hole.clone()]];
        assert!(in_mp(&mp, 0.5, 0.5) && !in_mp(&mp, 2.0, 2.0) && !in_mp(&mp, 5.0, 2.0));
        assert!(in_evenodd(&mp, 0.5, 0.5) && !in_evenodd(&mp, 2.0, 2.0));
        assert_eq!(mp_area2(&mp), 2.0 * 12.0);
        assert_eq!(ring_area2(&sq), 32.0);
        assert_eq!(canon_ring(&hole), canon_ring(&vec![(3.0, 3.0), (1.0, 3.0), (1.0, 1.0), (3.0, 1.0), (3.0, 3.0)]));
        // unclosed ring is closed implicitly
        assert!(in_ring(&vec![(0.0, 0.0), (4.0, 0.0), (4.0, 4.0), (0.0, 4.0)], 1.0, 1.0));
    }

    #[test]
    fn arrangement_witnesses_cover_every_face() {
        // two overlapping squares: faces A only, B only, both
        let a: MP = vec![vec![vec![(0.0, 0.0), (4.0, 0.0), (4.0, 4.0), (0.0, 4.0), (0.0, 0.0)]]];
        let b: MP = vec![vec![vec![(2.0, 2.0), (6.0, 2.0), (6.0, 6.0), (2.0, 6.0), (2.0, 2.0)]]];
        let mut segs = segs_of(&a);
        segs.extend(segs_of(&b));
        let mut st = WitnessStats { pieces: 0, accepted: 0, skipped_unclear: 0 };
        let pts = arrangement_side_points(&segs, 1e-6, &mut st);
        let classes: std::collections::HashSet<(bool, bool)> = pts.iter().map(|p| (in_mp(&a, p.0, p.1), in_mp(&b, p.0, p.1))).collect();
        assert_eq!(classes.len(), 4);
        assert_eq!(st.skipped_unclear, 0);
    }
}
