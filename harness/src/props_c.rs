//! Workers for the stage-level properties C13..C16 and the splay tree properties C17, C18.

use crate::ctx::*;
use crate::gen::*;
use crate::geom::*;
use crate::iface::*;
use crate::pimon::*;
use crate::props_a::*;
use crate::splaymon::*;
use crate::sweepmon::*;
use crate::util::Rng;
use serde_json::{json, Value};

type Fail = (String, String);

fn fail_of(f: Failure) -> Fail {
    (format!("failure:{}", f.symptom()), format!("{:?}", f))
}

// ------------------------------------------------------------------------------------------
// C13 / C14 / C15 share the sweep runner

pub fn c13_check(case: &Case, op: Op, f32_run: bool, st: &mut SweepStats) -> Result<(), Fail> {
    let tol = case.tol(f32_run);
    let exact_geo = true; // geo_order uses exact predicates on the coordinates actually stored
    if f32_run {
        let run = run_sweep::<f32>(&case.a, &case.b, op, true, exact_geo, st).map_err(fail_of)?;
        check_c13(case, &case.a, &case.b, &run, tol, st).map_err(|m| ("subdivision".to_string(), format!("{}: {}", op.name(), m)))
    } else {
        let run = run_sweep::<f64>(&case.a, &case.b, op, true, exact_geo, st).map_err(fail_of)?;
        check_c13(case, &case.a, &case.b, &run, tol, st).map_err(|m| ("subdivision".to_string(), format!("{}: {}", op.name(), m)))
    }
}

pub fn c14_check(case: &Case, op: Op, f32_run: bool, st: &mut SweepStats) -> Result<(), Fail> {
    let tol = case.tol(f32_run);
    if f32_run {
        let run = run_sweep::<f32>(&case.a, &case.b, op, false, false, st).map_err(fail_of)?;
        check_c14(case, &case.a, &case.b, op, &run, tol, st).map_err(|m| ("classification".to_string(), format!("{}: {}", op.name(), m)))
    } else {
        let run = run_sweep::<f64>(&case.a, &case.b, op, false, false, st).map_err(fail_of)?;
        check_c14(case, &case.a, &case.b, op, &run, tol, st).map_err(|m| ("classification".to_string(), format!("{}: {}", op.name(), m)))
    }
}

pub fn c15_check(case: &Case, op: Op, f32_run: bool, st: &mut SweepStats, rng: &mut Rng) -> Result<(), Fail> {
    if f32_run {
        let run = run_sweep::<f32>(&case.a, &case.b, op, false, false, st).map_err(fail_of)?;
        check_c15(&case.a, &case.b, op, &run, st, rng).map_err(|m| ("ordering".to_string(), format!("{}: {}", op.name(), m)))
    } else {
        let run = run_sweep::<f64>(&case.a, &case.b, op, false, false, st).map_err(fail_of)?;
        check_c15(&case.a, &case.b, op, &run, st, rng).map_err(|m| ("ordering".to_string(), format!("{}: {}", op.name(), m)))
    }
}

fn stage_worker(ctx: &mut Ctx, prop: &'static str, quick: u64, thorough: u64) {
    // under Miri (Tree Borrows) a handful of tiny sweeps: what is being watched there is the instrumentation itself -
    // the status observer (hook H3) passes a borrowed closure through a thread-local raw pointer, and the monitors call
    // back into the library (compare_segments) from inside it
    let miri = ctx.variant == "miri";
    let total = if miri { ctx.count(4, 32) } else { ctx.count(quick, thorough) };
    let mut st = SweepStats::default();
    for i in ctx.my_indices(total) {
        if ctx.out_of_time() {
            break;
        }
        let mut rng = ctx.rng("mixed", i);
        let case = if miri {
            ctx.cnt("miri_tiny_cases", 1);
            if i % 2 == 0 { gen_rect(&mut rng, 2) } else { gen_lattice(&mut rng, 1) }
        } else {
            match gen_checked(ctx, &mut rng, false) {
                Some(c) => c,
                None => continue,
            }
        };
        if prop == "C14" && case.self_crossing {
            // the classification statement is about valid operands; self-crossing rings make "own operand
            // inside below/above" an even-odd statement, which the flags also follow - keep them in
        }
        ctx.begin("mixed", i, "");
        for op in OPS {
            if miri && op != OPS[(i as usize / 2) % 4] {
                continue;
            }
            // f32 on every fourth representable case
            for f32_run in [false, true] {
                if f32_run && (miri || !(case.f32_ok && i % 4 == 0)) {
                    continue;
                }
                ctx.evaluations += 1;
                let r = match prop {
                    "C13" => c13_check(&case, op, f32_run, &mut st),
                    "C14" => c14_check(&case, op, f32_run, &mut st),
                    _ => {
                        let mut r2 = ctx.rng("triples", i);
                        c15_check(&case, op, f32_run, &mut st, &mut r2)
                    }
                };
                if let Err((sym, detail)) = r {
                    ctx.violation(&sym, &detail, boolean_replay(prop, &case, Some(op), f32_run, Pairing::MM, json!({"stream": i, "seed": ctx.seed})));
                }
                if nontrivial(&case) {
                    ctx.note_nontrivial(case_hash(&case, &format!("{}{}", op.name(), f32_run)));
                }
            }
        }
        ctx.end();
        if i % 997 == 0 {
            ctx.sample(case_brief(&case));
        }
    }
    ctx.monitor.insert("sweep_monitor".into(), st.to_json());
    ctx.monitor.insert("hook_hits".into(), json!(hits_map()));
}

pub fn c13_worker(ctx: &mut Ctx) {
    stage_worker(ctx, "C13", 40_000, 2_000_000)
}
pub fn c14_worker(ctx: &mut Ctx) {
    stage_worker(ctx, "C14", 60_000, 3_000_000)
}
pub fn c15_worker(ctx: &mut Ctx) {
    // pair-level workload first: constructed pairs incl. exact-on-segment T contacts with inexact arithmetic
    let total = ctx.count(2_000_000, 100_000_000);
    let mut st = SweepStats::default();
    for i in ctx.my_indices(total) {
        if i % 4096 == 0 && ctx.out_of_time() {
            break;
        }
        let mut rng = ctx.rng("segpair", i);
        ctx.evaluations += 1;
        let before = st.segment_pairs;
        if i % 4 == 3 {
            // fans of nearly collinear events at one vertex (event order under cancellation)
            if let Err(m) = crate::sweepmon::check_event_fan(&mut rng, &mut st) {
                ctx.violation("ordering:fan", &m, json!({"kind": "eventfan", "property": "C15", "seed": ctx.seed, "index": i}));
            }
            continue;
        }
        if let Err(m) = check_segment_pair(&mut rng, &mut st) {
            ctx.violation("ordering:pair", &m, json!({"kind": "segpair", "property": "C15", "seed": ctx.seed, "index": i}));
        }
        if st.segment_pairs > before && i % 16 == 0 {
            // distinct by construction stream index (sampled 1/16 to keep the hash set small)
            ctx.note_nontrivial(crate::util::fnv64(format!("segpair{}-{}", ctx.seed, i).as_bytes()));
        }
    }
    ctx.cnt("constructed_event_fans_of_nearly_collinear_segments", st.event_fans);
    ctx.cnt("constructed_segment_pairs_compared", st.segment_pairs);
    ctx.cnt("constructed_segment_pairs_with_decided_geometry", st.segment_geo_pairs);
    stage_worker(ctx, "C15", 20_000, 1_000_000)
}

// ------------------------------------------------------------------------------------------
// C16

pub fn c16_check(pc: &PairCase, exact_int: bool, st: &mut PiStats) -> PiVerdict {
    let scale = [pc.s1.0, pc.s1.1, pc.s2.0, pc.s2.1].iter().map(|p| p.0.abs().max(p.1.abs())).fold(0.0, f64::max).max(1e-300);
    if pc.f32_run {
        check_pair::<f32>(pc, exact_int, 1e-4 * scale, st)
    } else {
        check_pair::<f64>(pc, exact_int, 1e-9 * scale, st)
    }
}

pub fn c16_worker(ctx: &mut Ctx) {
    let total = ctx.count(1_500_000, 60_000_000);
    let mut st = PiStats::default();
    // histories of two calls on the same events (state left on the events by the first call)
    let histories = ctx.count(100_000, 4_000_000);
    for i in ctx.my_indices(histories) {
        if i % 4096 == 0 && ctx.out_of_time() {
            break;
        }
        let mut rng = ctx.rng("history", i);
        ctx.evaluations += 1;
        let r = if i % 2 == 0 { crate::pimon::check_two_call_history(&mut rng, &mut st) } else { crate::pimon::check_lifetime_history(&mut rng, &mut st) };
        if let Err(m) = r {
            ctx.violation("pair:history", &m, json!({"kind": "pair-history", "property": "C16", "seed": ctx.seed, "index": i}));
        }
    }
    let mut n2_reported = false;
    let handle = |ctx: &mut Ctx, pc: &PairCase, exact_int: bool, st: &mut PiStats, n2_reported: &mut bool| {
        ctx.evaluations += 1;
        match c16_check(pc, exact_int, st) {
            PiVerdict::Ok => {}
            PiVerdict::KnownN2(detail) => {
                ctx.cnt("known_n2_signature_instances", 1);
                if !*n2_reported {
                    *n2_reported = true;
                    ctx.violation("n2", &detail, json!({"kind": "pair", "property": "C16", "pair": pc.to_json(), "exact_int": exact_int, "signature": "ulp-bump-corner-case-1"}));
                }
            }
            PiVerdict::Violation(m) => ctx.violation("pair", &m, json!({"kind": "pair", "property": "C16", "pair": pc.to_json(), "exact_int": exact_int})),
        }
        let mut h = crate::util::Hasher128::default();
        for p in [pc.s1.0, pc.s1.1, pc.s2.0, pc.s2.1] {
            h.f64(p.0);
            h.f64(p.1);
        }
        h.u64(pc.subj1 as u64 * 2 + pc.subj2 as u64 + if pc.f32_run { 4 } else { 0 });
        // non-trivial: the segments are not disjoint
        if seg_rel(norm_seg(pc.s1), norm_seg(pc.s2)) != Rel::Disjoint {
            ctx.note_nontrivial(h.low());
        }
    };
    // the listed unit witness of N2 is exercised on every run
    if ctx.shard == 0 || ctx.only_index.is_some() {
        let x2 = f64::from_bits(1.0f64.to_bits() + 1);
        let pc = PairCase { s1: ((1.0, 10.0), (x2, 0.0)), s2: ((0.0, 9.5), (2.0, 9.5)), subj1: true, subj2: false, in_out1: false, in_out2: false, f32_run: false };
        ctx.begin("n2-witness", 0, "");
        handle(ctx, &pc, false, &mut st, &mut n2_reported);
        ctx.end();
        ctx.sample(pc.to_json());
    }
    for i in ctx.my_indices(total) {
        if ctx.out_of_time() {
            break;
        }
        let mut rng = ctx.rng("pair", i);
        ctx.begin("pair", i, "");
        match i % 8 {
            0..=5 => {
                let pc = gen_int_pair(&mut rng);
                handle(ctx, &pc, true, &mut st, &mut n2_reported);
                if i % 100_003 == 0 {
                    ctx.sample(pc.to_json());
                }
            }
            6 => {
                let f32_run = rng.below(2) == 0;
                match gen_float_pair(&mut rng, f32_run) {
                    Some(pc) => handle(ctx, &pc, false, &mut st, &mut n2_reported),
                    None => ctx.cnt("float_pairs_skipped_near_degenerate", 1),
                }
            }
            _ => {
                let which = rng.below(3);
                if which == 2 {
                    let pc = gen_decimal_tee(&mut rng);
                    // only exact T contacts (or the degenerate shared-endpoint / collinear draws, which the table covers too)
                    ctx.cnt("decimal_axis_parallel_contact_pairs", 1);
                    handle(ctx, &pc, false, &mut st, &mut n2_reported);
                } else if which == 0 {
                    let pc = if rng.below(2) == 0 { gen_parallel_pair(&mut rng) } else { gen_far_parallel_pair(&mut rng) };
                    if seg_rel(norm_seg(pc.s1), norm_seg(pc.s2)) == Rel::Disjoint {
                        ctx.cnt("exactly_parallel_near_coincident_pairs", 1);
                        handle(ctx, &pc, false, &mut st, &mut n2_reported);
                    } else {
                        ctx.cnt("parallel_pairs_skipped_not_disjoint", 1);
                    }
                } else {
                    let f32_run = rng.below(2) == 0;
                    let pc = gen_n2_pair(&mut rng, f32_run);
                    handle(ctx, &pc, false, &mut st, &mut n2_reported);
                }
            }
        }
        ctx.end();
    }
    ctx.monitor.insert("outcome_table".into(), json!(st.table));
    ctx.monitor.insert("pair_monitor".into(), json!({"pairs": st.pairs, "known_n2_instances": st.known_n2, "followup_calls_on_coincident_pieces": st.followups}));
    ctx.monitor.insert("hook_hits".into(), json!(hits_map()));
}

// ------------------------------------------------------------------------------------------
// C17

pub fn c17_history(seed: u64, label: &str, index: u64, steps: usize, universe: i32, st: &mut SplayStats) -> Result<(), (String, Vec<String>)> {
    let mut rng = Rng::keyed(seed, label, index);
    let mut log = Vec::new();
    let r = if index % 5 == 4 {
        random_set_history(&mut rng, steps, universe, st)
    } else if index % 5 == 3 {
        random_tagged_history(&mut rng, steps, universe, st)
    } else {
        random_history(&mut rng, steps, universe, st, &mut log)
    };
    r.map_err(|m| (m, log))
}

pub fn c17_worker(ctx: &mut Ctx) {
    let miri = ctx.variant == "miri";
    let slow = ctx.is_slow_variant();
    let mut st = SplayStats::default();
    // 1. exhaustive exploration of every reachable shape
    let k: u8 = match (ctx.variant.as_str(), ctx.tier) {
        ("miri", Tier::Quick) => 3,
        ("miri", Tier::Thorough) => 4,
        ("valgrind", _) => 5,
        ("asan", Tier::Quick) => 6,
        ("asan", Tier::Thorough) => 8,
        ("dbg", Tier::Thorough) => 10,
        (_, Tier::Quick) => 8,
        (_, Tier::Thorough) => 11,
    };
    ctx.begin("exhaustive", k as u64, "");
    let (shard, nshards) = (ctx.shard, ctx.nshards);
    let ex = match crate::iface::caught(move || exhaustive(k, shard, nshards, true)) {
        Ok(r) => r,
        Err(f) => {
            disarm_splay();
            Err(format!("{:?}", f))
        }
    };
    match ex {
        Ok(x) => {
            ctx.evaluations += x.transitions + x.terminal_runs;
            ctx.cnt("exhaustive_transitions_checked", x.transitions);
            ctx.cnt("exhaustive_terminal_runs", x.terminal_runs);
            ctx.max("max_exhaustive_shapes", x.shapes);
            ctx.max("max_exhaustive_path_length", x.max_depth as u64);
            ctx.max("max_exhaustive_key_universe", k as u64);
            if !slow {
                // states/transitions as seen by the native run (every shard discovers all shapes; transitions are split)
                ctx.monitor.insert("max_states".into(), json!(x.shapes));
            }
            for p in x.sample_paths {
                ctx.sample(json!({"exhaustive_path_to_a_shape": p}));
            }
            // every transition is a distinct non-trivial case: count them by index
            for t in 0..x.transitions.min(200_000) {
                ctx.note_nontrivial(crate::util::fnv64(format!("x{}-{}-{}-{}", k, ctx.variant, ctx.shard, t).as_bytes()));
            }
        }
        Err(m) => ctx.violation("splay:exhaustive", &m, json!({"kind": "splay-exhaustive", "property": "C17", "k": k})),
    }
    ctx.end();
    // 2. random histories in lock-step with BTreeMap / BTreeSet
    let total = if miri { ctx.count(16, 128) } else if slow { ctx.count(600, 40_000) } else { ctx.count(40_000, 3_000_000) };
    for i in ctx.my_indices(total) {
        if ctx.out_of_time() {
            break;
        }
        let mut prng = ctx.rng("params", i);
        let (steps, universe) = if miri {
            (120, [4, 9, 40][prng.below(3) as usize])
        } else {
            ([60usize, 300, 1500][prng.below(3) as usize], [3, 8, 40, 1000][prng.below(4) as usize])
        };
        ctx.begin("history", i, &format!("{} {}", steps, universe));
        ctx.evaluations += 1;
        let label = format!("{}/history", ctx.prop);
        let seed = ctx.seed;
        let hist = {
            let (label, st) = (&label, &mut st);
            crate::iface::caught(std::panic::AssertUnwindSafe(move || c17_history(seed, label, i, steps, universe, st)))
        };
        let hist = match hist {
            Ok(r) => r,
            Err(f) => {
                // a panic inside the tree (incl. the step budget of its loops: a loop that no longer terminates)
                disarm_splay();
                let msg = format!("{:?}", f);
                if msg.contains("@src/") {
                    // the panic location is in the harness crate itself (its paths are relative), not in the library:
                    // a harness error, never a violation
                    ctx.notes.push(format!("HARNESS-ERROR panic in the monitor: {}", msg));
                    ctx.cnt("harness_errors", 1);
                    Ok(())
                } else {
                    Err((format!("the tree did not complete the history: {}", msg), vec![]))
                }
            }
        };
        if let Err((m, log)) = hist {
            ctx.violation("splay:history", &format!("{} (history prefix: {})", m, log.join(" ")), json!({"kind": "splay-history", "property": "C17", "seed": ctx.seed, "label": label, "index": i, "steps": steps, "universe": universe}));
        }
        ctx.note_nontrivial(crate::util::fnv64(format!("h{}-{}-{}-{}", ctx.seed, i, steps, universe).as_bytes()));
        ctx.end();
        if i % 9973 == 0 {
            ctx.sample(json!({"random_history": {"index": i, "steps": steps, "key_universe": universe}}));
        }
    }
    let (c, d) = created_dropped();
    ctx.cnt("tracked_objects_created", c);
    ctx.cnt("tracked_objects_dropped", d);
    ctx.monitor.insert("splay_monitor".into(), st.to_json());
}

// ------------------------------------------------------------------------------------------
// C18

pub fn c18_worker(ctx: &mut Ctx) {
    let n_tree: usize = match ctx.tier {
        Tier::Quick => 300_000,
        Tier::Thorough => 3_000_000,
    };
    let n_comb: Vec<usize> = match ctx.tier {
        Tier::Quick => vec![150_000],
        Tier::Thorough => vec![150_000, 250_000],
    };
    let exe = std::env::current_exe().unwrap();
    let mut jobs: Vec<(String, usize, usize)> = Vec::new();
    // "dev" = unoptimised build (opt-level 0, as `cargo test` / `cargo build` produce): tail calls are not turned into
    // loops there, so recursion that an optimised build hides shows; the Boolean scenarios are left to the optimised build
    let dev = ctx.variant == "dev";
    for s in C18_SCENARIOS {
        for stack_kib in [0usize, 2048] {
            jobs.push((s.to_string(), n_tree, stack_kib));
        }
    }
    for s in crate::splaymon::c18_shape_scenarios() {
        // every shape on the small stack; on the main stack a third of them (rotating with the seed)
        jobs.push((s.clone(), n_tree, 2048));
        if (crate::util::fnv64(s.as_bytes()) ^ ctx.seed) % 3 == 0 {
            jobs.push((s, n_tree, 0));
        }
    }
    if !dev {
        for s in C18_BOOLEAN_SCENARIOS {
            for &n in &n_comb {
                for stack_kib in [0usize, 2048] {
                    jobs.push((s.to_string(), n, stack_kib));
                }
            }
        }
    } else if ctx.tier == Tier::Quick {
        // the unoptimised build is several times slower: every other scenario in the quick tier
        jobs = jobs.into_iter().enumerate().filter(|(i, _)| (*i as u64 + ctx.seed) % 2 == 0).map(|(_, j)| j).collect();
    }
    for (idx, (scenario, n, stack_kib)) in jobs.iter().enumerate() {
        if ctx.only_index.map(|o| o != idx as u64).unwrap_or(idx as u64 % ctx.nshards != ctx.shard) {
            continue;
        }
        ctx.evaluations += 1;
        let out = std::process::Command::new(&exe).args(["c18-child", scenario, &n.to_string(), &stack_kib.to_string()]).output();
        let stack_name = if *stack_kib == 0 { "8 MiB main-thread stack".to_string() } else { format!("{} KiB thread stack", stack_kib) };
        match out {
            Ok(o) => {
                let stdout = String::from_utf8_lossy(&o.stdout).to_string();
                let stderr = String::from_utf8_lossy(&o.stderr).to_string();
                if o.status.success() {
                    ctx.cnt("scenarios_completed", 1);
                    ctx.max("max_keys_or_rectangles", *n as u64);
                    if idx % 7 == 0 {
                        ctx.sample(json!({"scenario": scenario, "n": n, "stack": stack_name, "child_output": stdout.trim()}));
                    }
                } else {
                    use std::os::unix::process::ExitStatusExt;
                    let how = match o.status.signal() {
                        Some(sig) => format!("killed by signal {}", sig),
                        None => format!("exit code {:?}", o.status.code()),
                    };
                    let class = if stderr.contains("overflowed its stack") || o.status.signal() == Some(11) || o.status.signal() == Some(6) { "stack-overflow" } else { "scenario-failed" };
                    ctx.violation(
                        &format!("c18:{}", class),
                        &format!("scenario {} with n={} on the {} ({} build): child {}; {} {}", scenario, n, stack_name, ctx.variant, how, stdout.trim(), stderr.lines().last().unwrap_or("")),
                        json!({"kind": "c18", "property": "C18", "scenario": scenario, "n": n, "stack_kib": stack_kib, "variant": ctx.variant}),
                    );
                }
                ctx.note_nontrivial(crate::util::fnv64(format!("{}-{}-{}", scenario, n, stack_kib).as_bytes()));
            }
            Err(e) => {
                ctx.notes.push(format!("HARNESS-ERROR cannot spawn child: {}", e));
                ctx.cnt("harness_errors", 1);
            }
        }
    }
}

pub fn c18_replay(r: &Value) -> Result<String, Fail> {
    // a scenario that failed in the unoptimised build is replayed with that build (default location under /verif)
    let exe = if r["variant"] == "dev" {
        std::path::PathBuf::from(std::env::var("VCHECK_BIN_DEV").unwrap_or_else(|_| format!("{}/target/debug/vcheck", crate::util::verif_root())))
    } else {
        std::env::current_exe().unwrap()
    };
    let o = std::process::Command::new(&exe)
        .args(["c18-child", r["scenario"].as_str().unwrap(), &r["n"].as_u64().unwrap().to_string(), &r["stack_kib"].as_u64().unwrap().to_string()])
        .output()
        .map_err(|e| ("harness".to_string(), e.to_string()))?;
    if o.status.success() {
        Ok(String::from_utf8_lossy(&o.stdout).trim().to_string())
    } else {
        Err(("c18:stack-overflow".into(), format!("child exited with {:?}: {}", o.status, String::from_utf8_lossy(&o.stderr).lines().last().unwrap_or(""))))
    }
}
