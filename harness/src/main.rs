//! vcheck: supervisor / worker / replay entry points.

use serde_json::{json, Map, Value};
use std::collections::{BTreeMap, BTreeSet, HashSet};
use std::process::{Command, Stdio};
use std::time::{Duration, Instant};
use vharness::ctx::*;
use vharness::props;

#[global_allocator]
static ALLOC: vharness::util::CountingAlloc = vharness::util::CountingAlloc;

/// Output root (work/, replays/, evidence/). Registered checks use /verif; the seeded-defect tooling points this
/// (together with VERIF_REPO in ./check) at a scratch directory so that several trees can be checked side by side.
fn verif_root() -> String {
    vharness::util::verif_root()
}

fn usage() -> ! {
    eprintln!("usage: vcheck run <PROP> <quick|thorough> [seed] | worker ... | replay <file> | c18-child <scenario> <n> <stack_kib> | probe <file>");
    std::process::exit(2)
}

fn main() {
    let args: Vec<String> = std::env::args().collect();
    if args.len() < 2 {
        usage();
    }
    match args[1].as_str() {
        "run" => {
            let prop = args.get(2).cloned().unwrap_or_else(|| usage());
            let tier = Tier::parse(args.get(3).map(|s| s.as_str()).unwrap_or("quick"));
            let seed: u64 = args.get(4).and_then(|s| s.parse().ok()).or_else(|| std::env::var("VERIF_SEED").ok().and_then(|s| s.parse().ok())).unwrap_or(1);
            std::process::exit(supervise(&prop, tier, seed));
        }
        "worker" => {
            // worker <prop> <tier> <seed> <shard> <nshards> <variant> <out> <budget_s>
            let prop = &args[2];
            let tier = Tier::parse(&args[3]);
            let seed: u64 = args[4].parse().unwrap();
            let shard: u64 = args[5].parse().unwrap();
            let nshards: u64 = args[6].parse().unwrap();
            let variant = &args[7];
            let out = args.get(8).cloned().unwrap_or_default();
            let budget: f64 = args.get(9).and_then(|s| s.parse().ok()).unwrap_or(60.0);
            vharness::iface::install_panic_hook();
            let mut ctx = Ctx::new(prop, tier, seed, shard, nshards, variant, &out, budget);
            // every second worker process makes its very first library call in single precision, the others in double
            // precision: anything a process fixes at first use (a lazily initialised static, say) must not depend on that
            if shard % 2 == 1 && variant != "miri" {
                let sq = |x: f64| -> vharness::geom::MP { vec![vec![vharness::gen::rect_ring(x, x, x + 2.0, x + 2.0)]] };
                let first = vharness::iface::run_op::<f32>(&sq(0.0), &sq(1.0), vharness::geom::Op::Intersection, vharness::iface::Pairing::MM);
                ctx.cnt("worker_processes_whose_first_library_call_was_f32", 1);
                if first.map(|r| r.len()).unwrap_or(0) != 1 {
                    ctx.notes.push("HARNESS-ERROR the f32 warm-up operation did not return one polygon".into());
                    ctx.cnt("harness_errors", 1);
                }
            }
            props::worker(&mut ctx);
            ctx.finish();
        }
        "replay" => {
            let path = args.get(2).cloned().unwrap_or_else(|| usage());
            let text = std::fs::read_to_string(&path).expect("read replay file");
            let v: Value = serde_json::from_str(&text).expect("parse replay file");
            vharness::iface::install_panic_hook();
            match props::replay(&v["replay"]) {
                Ok(msg) => {
                    println!("replay {}: property holds on this input now ({})", path, msg);
                    std::process::exit(0)
                }
                Err((sym, detail)) => {
                    println!("replay {}: reproduces: [{}] {}", path, sym, detail);
                    println!("VIOLATION property={} replay={}", v["property"].as_str().unwrap_or("?"), path);
                    std::process::exit(1)
                }
            }
        }
        "probe" => {
            let text = std::fs::read_to_string(&args[2]).expect("read");
            let v: Value = serde_json::from_str(&text).expect("parse");
            vharness::iface::install_panic_hook();
            props::probe(&v);
        }
        "c18-child" => {
            let scenario = args[2].clone();
            let n: usize = args[3].parse().unwrap();
            let stack_kib: usize = args[4].parse().unwrap();
            vharness::iface::install_panic_hook();
            let res = if stack_kib == 0 {
                vharness::splaymon::c18_scenario(&scenario, n)
            } else {
                std::thread::Builder::new().stack_size(stack_kib * 1024).spawn(move || vharness::splaymon::c18_scenario(&scenario, n)).unwrap().join().unwrap_or_else(|_| Err("panic".into()))
            };
            match res {
                Ok(m) => {
                    println!("OK {}", m);
                    std::process::exit(0)
                }
                Err(m) => {
                    println!("FAIL {}", m);
                    std::process::exit(3)
                }
            }
        }
        _ => usage(),
    }
}

// ------------------------------------------------------------------------------------------

struct Job {
    variant: String,
    shard: u64,
    nshards: u64,
    out: String,
    child: Option<std::process::Child>,
    status: Option<std::process::ExitStatus>,
    log: String,
}

fn variant_bin(variant: &str) -> Option<String> {
    match variant {
        "release" => Some(std::env::current_exe().unwrap().to_string_lossy().to_string()),
        "dbg" => std::env::var("VCHECK_BIN_DBG").ok(),
        "dev" => std::env::var("VCHECK_BIN_DEV").ok(),
        "asan" => std::env::var("VCHECK_BIN_ASAN").ok(),
        "tsan" => std::env::var("VCHECK_BIN_TSAN").ok(),
        "valgrind" => std::env::var("VCHECK_BIN_VALGRIND").ok().or_else(|| Some(std::env::current_exe().unwrap().to_string_lossy().to_string())),
        _ => None,
    }
}

fn spawn(prop: &str, tier: Tier, seed: u64, job: &mut Job, budget_s: f64) -> Result<(), String> {
    let args: Vec<String> = vec![
        "worker".into(),
        prop.into(),
        tier.name().into(),
        seed.to_string(),
        job.shard.to_string(),
        job.nshards.to_string(),
        job.variant.clone(),
        job.out.clone(),
        format!("{}", budget_s),
    ];
    let logf = std::fs::File::create(&job.log).map_err(|e| e.to_string())?;
    let loge = logf.try_clone().map_err(|e| e.to_string())?;
    let mut cmd = match job.variant.as_str() {
        "miri" => {
            let mut c = Command::new("cargo");
            c.args(["+nightly", "miri", "run", "--quiet", "--manifest-path"]);
            c.arg(format!("{}/Cargo.toml", std::env::var("VERIF_HARNESS_DIR").unwrap_or_else(|_| "/verif/harness".into())));
            c.arg("--target-dir").arg(format!("{}/target-miri", verif_root()));
            c.args(["--bin", "vcheck", "--"]);
            c.env("MIRIFLAGS", "-Zmiri-tree-borrows -Zmiri-disable-isolation");
            c.env("CARGO_NET_OFFLINE", "true");
            c
        }
        "valgrind" => {
            let mut c = Command::new("valgrind");
            c.args(["--error-exitcode=97", "--leak-check=full", "--errors-for-leak-kinds=definite", "--quiet"]);
            c.arg(variant_bin("valgrind").unwrap());
            c
        }
        v => {
            let bin = variant_bin(v).ok_or_else(|| format!("no binary for variant {} (environment VCHECK_BIN_{} not set)", v, v.to_uppercase()))?;
            let mut c = Command::new(bin);
            if v == "asan" {
                c.env("ASAN_OPTIONS", "detect_leaks=1:halt_on_error=1:abort_on_error=0:exitcode=98");
            }
            if v == "tsan" {
                c.env("TSAN_OPTIONS", "halt_on_error=1:exitcode=66");
            }
            c
        }
    };
    cmd.args(&args).stdout(Stdio::from(logf)).stderr(Stdio::from(loge)).stdin(Stdio::null());
    job.child = Some(cmd.spawn().map_err(|e| format!("spawn {}: {}", job.variant, e))?);
    Ok(())
}

fn merge_value(dst: &mut Value, src: &Value, key: &str) {
    match (dst, src) {
        (Value::Object(d), Value::Object(s)) => {
            for (k, v) in s {
                match d.get_mut(k) {
                    Some(dv) => merge_value(dv, v, k),
                    None => {
                        d.insert(k.clone(), v.clone());
                    }
                }
            }
        }
        (d @ Value::Number(_), Value::Number(s)) => {
            let (a, b) = (d.as_u64(), s.as_u64());
            if let (Some(a), Some(b)) = (a, b) {
                *d = if key.starts_with("max") { json!(a.max(b)) } else { json!(a + b) };
            } else {
                let (a, b) = (d.as_f64().unwrap_or(0.0), s.as_f64().unwrap_or(0.0));
                *d = if key.starts_with("max") { json!(a.max(b)) } else { json!(a + b) };
            }
        }
        (Value::Array(d), Value::Array(s)) => {
            for x in s {
                if d.len() < 6 {
                    d.push(x.clone());
                }
            }
        }
        _ => {}
    }
}

fn load_known() -> Value {
    std::fs::read_to_string(vharness::util::known_findings_path()).ok().and_then(|t| serde_json::from_str(&t).ok()).unwrap_or_else(|| json!({"findings": [], "fixed": []}))
}

/// does a raw violation match a listed known finding?
fn match_known<'a>(known: &'a Value, v: &Value) -> Option<&'a Value> {
    let list = match known["findings"].as_array() {
        Some(l) => l,
        None => return None,
    };
    for f in list {
        if f["property"] != v["property"] {
            continue;
        }
        let sym = v["symptom"].as_str().unwrap_or("");
        let fs = f["symptom"].as_str().unwrap_or("");
        if !sym.starts_with(fs) {
            continue;
        }
        match f["match"].as_str().unwrap_or("") {
            "input" => {
                let r = &v["replay"];
                let same_input = r["case"]["operands_hash"] == f["operands_hash"];
                let same_op = f["operation"].is_null() || f["operation"] == "any" || r["operation"] == f["operation"];
                let same_float = f["float"].is_null() || f["float"] == "any" || r["float"] == f["float"];
                let same_variant = f["variant"].is_null() || f["variant"] == "any" || v["variant"] == f["variant"];
                if same_input && same_op && same_float && same_variant {
                    return Some(f);
                }
            }
            "signature" => {
                if v["replay"]["signature"] == f["signature"] {
                    return Some(f);
                }
            }
            _ => {}
        }
    }
    None
}

fn supervise(prop: &str, tier: Tier, seed: u64) -> i32 {
    let t0 = Instant::now();
    let mut plan = props::plan(prop, tier);
    // development aid for the seeded-defect sweeps (never set by a registered command): restrict the build variants
    let variant_filter: Option<Vec<String>> = std::env::var("VERIF_VARIANTS").ok().filter(|s| !s.is_empty()).map(|s| s.split(',').map(|x| x.to_string()).collect());
    if let Some(f) = &variant_filter {
        plan.retain(|(v, _)| f.contains(v));
    }
    if plan.is_empty() {
        eprintln!("unknown property {}", prop);
        return 2;
    }
    let work = format!("{}/work/{}-{}", verif_root(), prop, tier.name());
    let _ = std::fs::remove_dir_all(&work);
    std::fs::create_dir_all(&work).expect("create work dir");
    std::fs::create_dir_all(format!("{}/replays", verif_root())).ok();
    std::fs::create_dir_all(format!("{}/evidence", verif_root())).ok();
    let budget_s: f64 = std::env::var("VERIF_BUDGET_S").ok().and_then(|s| s.parse().ok()).unwrap_or(match tier {
        Tier::Quick => 40.0,
        Tier::Thorough => 600.0,
    });
    let watchdog = Duration::from_secs_f64(budget_s * 6.0 + 900.0);
    let mut jobs: Vec<Job> = Vec::new();
    for (variant, nshards) in &plan {
        for shard in 0..*nshards {
            jobs.push(Job {
                variant: variant.clone(),
                shard,
                nshards: *nshards,
                out: format!("{}/{}-{}.json", work, variant, shard),
                child: None,
                status: None,
                log: format!("{}/{}-{}.log", work, variant, shard),
            });
        }
    }
    let mut harness_errors: Vec<String> = Vec::new();
    // run at most 16 at a time
    let max_par: usize = std::env::var("VERIF_MAX_PAR").ok().and_then(|s| s.parse().ok()).filter(|n| *n > 0).unwrap_or(16);
    let mut next = 0usize;
    let mut running: Vec<usize> = Vec::new();
    let mut timed_out = false;
    while next < jobs.len() || !running.is_empty() {
        while running.len() < max_par && next < jobs.len() {
            match spawn(prop, tier, seed, &mut jobs[next], budget_s) {
                Ok(()) => running.push(next),
                Err(e) => harness_errors.push(e),
            }
            next += 1;
        }
        std::thread::sleep(Duration::from_millis(20));
        let mut still = Vec::new();
        for &j in &running {
            match jobs[j].child.as_mut().unwrap().try_wait() {
                Ok(Some(st)) => jobs[j].status = Some(st),
                Ok(None) => still.push(j),
                Err(e) => harness_errors.push(format!("wait: {}", e)),
            }
        }
        running = still;
        if t0.elapsed() > watchdog {
            for &j in &running {
                let _ = jobs[j].child.as_mut().unwrap().kill();
            }
            timed_out = true;
            break;
        }
    }

    // ---- merge
    let known = load_known();
    let mut evaluations = 0u64;
    let mut merged = json!({"counters": {}, "maxima": {}, "monitor": {}});
    let mut samples: Vec<Value> = Vec::new();
    let mut raw_violations: Vec<Value> = Vec::new();
    let mut hashes: HashSet<u64> = HashSet::new();
    let mut per_variant: BTreeMap<String, Value> = BTreeMap::new();
    let mut notes: BTreeSet<String> = BTreeSet::new();
    let mut probe_seen: BTreeMap<String, (Value, String)> = BTreeMap::new();
    let mut probe_comparisons = 0u64;
    for job in &jobs {
        let res: Option<Value> = std::fs::read_to_string(&job.out).ok().and_then(|t| serde_json::from_str(&t).ok());
        let pv = per_variant.entry(job.variant.clone()).or_insert_with(|| json!({"workers": 0, "evaluations": 0, "abnormal_exits": 0, "wall_s_max": 0.0}));
        pv["workers"] = json!(pv["workers"].as_u64().unwrap() + 1);
        match res {
            Some(r) if r["done"] == true => {
                evaluations += r["evaluations"].as_u64().unwrap_or(0);
                pv["evaluations"] = json!(pv["evaluations"].as_u64().unwrap() + r["evaluations"].as_u64().unwrap_or(0));
                pv["wall_s_max"] = json!(pv["wall_s_max"].as_f64().unwrap().max(r["wall_s"].as_f64().unwrap_or(0.0)));
                merge_value(&mut merged["counters"], &r["counters"], "");
                merge_value(&mut merged["maxima"], &r["maxima"], "max");
                merge_value(&mut merged["monitor"], &r["monitor"], "");
                // fixed probe inputs: every build variant must have produced the same result (timing independence)
                if let Some(ph) = r["monitor"]["probe_hashes"].as_object() {
                    for (name, h) in ph {
                        match probe_seen.get(name) {
                            None => {
                                probe_seen.insert(name.clone(), (h.clone(), format!("{} (worker {})", job.variant, job.shard)));
                            }
                            Some((h0, v0)) => {
                                probe_comparisons += 1;
                                if h0 != h {
                                    raw_violations.push(json!({"property": prop, "symptom": "determinism:cross-variant", "variant": job.variant,
                                        "detail": format!("probe {} gives result hash {} in build variant {} (worker {}) but {} in {}: the result depends on the build variant, on how long the call takes, or on what the worker process computed before (odd workers start with an f32 call, even ones with f64)", name, h, job.variant, job.shard, h0, v0),
                                        "replay": {"kind": "probe", "name": name}}));
                                }
                            }
                        }
                    }
                }
                for s in r["samples"].as_array().unwrap_or(&vec![]) {
                    if samples.len() < 4 {
                        samples.push(s.clone());
                    }
                }
                for v in r["violations"].as_array().unwrap_or(&vec![]) {
                    raw_violations.push(v.clone());
                }
                for n in r["notes"].as_array().unwrap_or(&vec![]) {
                    notes.insert(n.as_str().unwrap_or("").to_string());
                }
                if let Ok(bytes) = std::fs::read(format!("{}.hashes", job.out)) {
                    for c in bytes.chunks_exact(8) {
                        hashes.insert(u64::from_le_bytes(c.try_into().unwrap()));
                    }
                }
                // a sanitizer may report at exit (leaks) after the result was written
                if let Some(st) = job.status {
                    if !st.success() {
                        pv["abnormal_exits"] = json!(pv["abnormal_exits"].as_u64().unwrap() + 1);
                        let tail = tail_of(&job.log, 40);
                        raw_violations.push(json!({"property": prop, "symptom": format!("sanitizer-report:{}", job.variant), "variant": job.variant,
                            "detail": format!("worker finished its cases but exited with {:?}; log tail:\n{}", st, tail), "replay": {"kind": "worker-log", "log": job.log}}));
                    }
                }
            }
            _ => {
                // violations the worker had already recorded before it hung or died
                if let Ok(text) = std::fs::read_to_string(format!("{}.viol", job.out)) {
                    for line in text.lines() {
                        if let Ok(v) = serde_json::from_str::<Value>(line) {
                            raw_violations.push(v);
                        }
                    }
                }
                if timed_out {
                    continue;
                }
                // the worker died: the journal tells which case was in flight
                pv["abnormal_exits"] = json!(pv["abnormal_exits"].as_u64().unwrap() + 1);
                let journal = std::fs::read_to_string(format!("{}.journal", job.out)).unwrap_or_default();
                let last = journal.lines().rev().find(|l| !l.is_empty()).unwrap_or("").to_string();
                let tail = tail_of(&job.log, 40);
                let status = job.status.map(|s| format!("{:?}", s)).unwrap_or_else(|| "unknown".into());
                if last.starts_with("BEGIN") {
                    let parts: Vec<&str> = last.splitn(4, ' ').collect();
                    let label = parts.get(1).cloned().unwrap_or("");
                    let index: u64 = parts.get(2).and_then(|s| s.parse().ok()).unwrap_or(0);
                    let extra = parts.get(3).cloned().unwrap_or("");
                    let class = if tail.contains("has overflowed its stack") || tail.contains("stack overflow") {
                        "stack-overflow"
                    } else if tail.contains("AddressSanitizer") {
                        "asan-report"
                    } else if tail.contains("ThreadSanitizer") {
                        "tsan-report"
                    } else if tail.contains("Undefined Behavior") {
                        "miri-undefined-behaviour"
                    } else if tail.contains("memory leak") || tail.contains("definitely lost") {
                        "leak"
                    } else {
                        "abnormal-exit"
                    };
                    raw_violations.push(json!({"property": prop, "symptom": format!("crash:{}", class), "variant": job.variant,
                        "detail": format!("worker ({}) died with {} while case {} #{} {} was in flight; log tail:\n{}", job.variant, status, label, index, extra, tail),
                        "replay": {"kind": "generated", "property": prop, "label": label, "index": index, "extra": extra, "seed": seed, "tier": tier.name(), "variant": job.variant}}));
                } else {
                    harness_errors.push(format!("worker {} shard {} exited with {} outside any library call; log tail:\n{}", job.variant, job.shard, status, tail));
                }
            }
        }
    }
    let harness_err_count = merged["counters"]["harness_errors"].as_u64().unwrap_or(0);
    if harness_err_count > 0 {
        harness_errors.push(format!("{} generator self-test failures: {:?}", harness_err_count, notes.iter().take(3).collect::<Vec<_>>()));
    }

    // ---- classify violations
    let mut unlisted: Vec<Value> = Vec::new();
    let mut known_lines: BTreeSet<String> = BTreeSet::new();
    for v in &raw_violations {
        if v["symptom"].as_str().unwrap_or("").starts_with("known:") {
            // produced by the replay of a listed finding inside the worker
            known_lines.insert(v["detail"].as_str().unwrap_or("").to_string());
            continue;
        }
        match match_known(&known, v) {
            Some(f) => {
                known_lines.insert(format!("KNOWN-FINDING: property={} {} {}", prop, f["id"].as_str().unwrap_or(""), f["what"].as_str().unwrap_or("")));
            }
            None => unlisted.push(v.clone()),
        }
    }
    for l in &known_lines {
        println!("{}", l);
    }
    // dedupe unlisted by (symptom, operands hash / signature)
    let mut seen: HashSet<String> = HashSet::new();
    let mut replay_paths: Vec<String> = Vec::new();
    let mut n_written = 0;
    for v in &unlisted {
        let key = if v["replay"]["case"]["operands_hash"].is_string() {
            format!("{}|{}|{}", v["symptom"], v["replay"]["case"]["operands_hash"], v["replay"]["operation"])
        } else {
            format!("{}|{}", v["symptom"], v["replay"])
        };
        if !seen.insert(key.clone()) {
            continue;
        }
        if n_written >= 10 {
            continue;
        }
        n_written += 1;
        let name = format!("{}/replays/{}-{}-{:016x}.json", verif_root(), prop, tier.name(), vharness::util::fnv64(key.as_bytes()) ^ seed);
        let _ = std::fs::write(&name, serde_json::to_string_pretty(v).unwrap());
        let first: String = v["detail"].as_str().unwrap_or("").lines().next().unwrap_or("").chars().take(400).collect();
        println!("violation [{}] {}", v["symptom"].as_str().unwrap_or(""), first);
        println!("VIOLATION property={} replay={}", prop, name);
        replay_paths.push(name);
    }

    // ---- evidence
    let (rule, level_note) = props::rule(prop);
    let wall = t0.elapsed().as_secs_f64();
    if samples.is_empty() {
        samples.push(json!({"note": "no sample recorded by the workers"}));
    }
    let mut coverage = Map::new();
    coverage.insert("evaluations".into(), json!(evaluations));
    coverage.insert("distinct_nontrivial".into(), json!(hashes.len()));
    coverage.insert("rule".into(), json!(rule));
    coverage.insert("samples".into(), json!(samples));
    coverage.insert("counters".into(), merged["counters"].clone());
    coverage.insert("maxima".into(), merged["maxima"].clone());
    coverage.insert("monitors_observed".into(), merged["monitor"].clone());
    coverage.insert("build_variants".into(), json!(per_variant));
    if let Some(f) = &variant_filter {
        coverage.insert("build_variants_restricted_to".into(), json!(f));
    }
    coverage.insert("known_findings_reported".into(), json!(known_lines.iter().collect::<Vec<_>>()));
    coverage.insert("unlisted_violations".into(), json!(unlisted.len()));
    if !probe_seen.is_empty() {
        coverage.insert("cross_variant_probe_comparisons".into(), json!(probe_comparisons));
    }
    if let Some(x) = merged["monitor"].get("exhaustive") {
        coverage.insert("exhaustive".into(), x.clone());
    }
    if let Some(x) = merged["monitor"].get("states") {
        coverage.insert("states".into(), x.clone());
    }
    if let Some(x) = merged["monitor"].get("transitions") {
        coverage.insert("transitions".into(), x.clone());
    }
    let floor = props::floor(prop, tier);
    let mut unreached: Vec<String> = Vec::new();
    for site in props::required_sites(prop) {
        if merged["monitor"]["hook_hits"][site].as_u64().unwrap_or(0) == 0 {
            unreached.push(site.to_string());
        }
    }
    coverage.insert("required_branches_reached".into(), json!({"required": props::required_sites(prop), "unreached": unreached}));
    if !unreached.is_empty() {
        harness_errors.push(format!("the workload never reached the library branches {:?} (hook hit counters are zero)", unreached));
    }
    let inconclusive = timed_out || !harness_errors.is_empty() || evaluations < floor;
    let verdict = if !unlisted.is_empty() {
        "violated"
    } else if inconclusive {
        "inconclusive"
    } else {
        "held on what was observed"
    };
    coverage.insert("verdict".into(), json!(verdict));
    if !harness_errors.is_empty() {
        coverage.insert("harness_errors".into(), json!(harness_errors));
    }
    let evidence = json!({
        "property_id": prop, "tier": tier.name(), "seed": seed, "level": "exploration", "coverage": coverage,
        "assumptions": level_note, "wall_s": wall, "violations": unlisted.len(),
    });
    let _ = std::fs::write(format!("{}/evidence/{}.json", verif_root(), prop), serde_json::to_string_pretty(&evidence).unwrap());
    println!(
        "{} {} seed={} evaluations={} distinct_nontrivial={} variants={:?} wall={:.1}s verdict={}",
        prop,
        tier.name(),
        seed,
        evaluations,
        hashes.len(),
        per_variant.keys().collect::<Vec<_>>(),
        wall,
        verdict
    );
    if !unlisted.is_empty() {
        return 1;
    }
    if inconclusive {
        for e in &harness_errors {
            eprintln!("INCONCLUSIVE: {}", e);
        }
        if timed_out {
            eprintln!("INCONCLUSIVE: watchdog expired");
        }
        if evaluations < floor {
            eprintln!("INCONCLUSIVE: only {} evaluations (floor {})", evaluations, floor);
        }
        return 2;
    }
    0
}

fn tail_of(path: &str, n: usize) -> String {
    let t = std::fs::read_to_string(path).unwrap_or_default();
    let lines: Vec<&str> = t.lines().collect();
    let from = lines.len().saturating_sub(n);
    lines[from..].join("\n")
}
